# Per-property configuration of the driver (./check). Case counts are
# calibrated so that a quick run stays around a minute on 16 cores.

GO_ASSUME = [
    "Go toolchain go1.23.5, GOFLAGS=-mod=mod, harness module with replace => /repo (current working tree), build tag verif",
    "pgregory.net/rapid v1.3.0 drives all random choices; seed derived from VERIF_SEED, property id and shard index",
]
SCHED_ASSUME = [
    "goroutine interleavings inside one perturbation window are sampled by the Go scheduler, not enumerated",
    "a hang verdict requires every library/client goroutine to be blocked with identical stacks over >=1 s with no hook event in between; slow runs are reported inconclusive",
]

DEFAULTS = {
    "level": "exploration",
    "assumptions": GO_ASSUME,
    "crash_is_violation": False,
}


def tiers(qshards, qchecks, tshards, tchecks, qtimeout=900, ttimeout=7200, **kw):
    q = {"shards": qshards, "checks": qchecks, "timeout": qtimeout}
    t = {"shards": tshards, "checks": tchecks, "timeout": ttimeout}
    for k, v in kw.items():
        if k.startswith("q_"):
            q[k[2:]] = v
        elif k.startswith("t_"):
            t[k[2:]] = v
        else:
            q[k] = v
            t[k] = v
    return {"quick": q, "thorough": t}


CONF = {
    "C08": {
        "rule": "cases = (total,current,current2,refill,width,requested,style flags) drawn by rapid: int64 boundary tables, ratio-targeted currents at rounding boundaries, overflow-targeted products, uniform; non-trivial = 0<current<total and inner width>=2; distinct by FNV-64 of the case JSON",
        "assumptions": GO_ASSUME + [
            "oracle: exact math/big value of inner*current/total rounded half away from zero; one cell of tolerance only when the exact value is within 1e-9 of a half; go-runewidth cell widths (2-column runes: within one rune)",
        ],
        "tiers": tiers(8, 25000, 16, 400000, t_fuzz=[{"target": "FuzzC08", "seconds": 120}]),
        "require_classes": ["product>=2^64", "wide", "cluster", "refill", "pair", "total<=0", "current>=total", "animated-tip", "total-changed-between-frames"],
    },
    "C07": {
        "rule": "cases = (mode fill|decor|row, terminal width 0..250, requested width, bar/spinner/nop style over an alphabet with wide, zero-width, multi-rune and empty components, 0-4 decorators with W/C configs and wrapper stacks, int64 counters, 1-4 repeated renders); non-trivial = a component of width != 1, refill>0, requested>available, width<6 or decorators that do not fit; distinct by FNV-64 of the case JSON",
        "assumptions": GO_ASSUME + [
            "display width measured with go-runewidth after stripansi (same tables as the library): the property is about mpb's layout arithmetic",
            "non-termination verdict: a draw call still running after 10 s or growing the heap by 256 MiB (normal calls take microseconds)",
            "style alphabet restricted to strings that do not join into grapheme clusters with their neighbours",
        ],
        "tiers": tiers(8, 6000, 16, 150000, t_fuzz=[{"target": "FuzzC07", "seconds": 180}]),
        "require_classes": ["mode:fill", "mode:decor", "mode:row", "zero-width-component", "wide-component", "wide-tip", "multi-tip", "row:decorators-exceed-width", "row:pty", "style:spinner", "mode:frames", "frames:clipped", "frames:resized"],
    },
    "C09": {
        "rule": "cases = (initial total over int64 classes, refresh mode none|manual|injected auto, with/without EWMA decorator, 0-40 operations drawn against the reference bar model so that mutators stop at the first terminal state: increments of all 6 flavours incl. negative and boundary amounts, SetCurrent/EwmaSetCurrent, SetTotal(+/-,complete), EnableTriggerComplete, SetRefill, Abort, getters, render cycles); non-trivial = >=3 mutators of >=2 kinds and the trigger flag was touched or the cap at total applied; distinct by FNV-64 of the case JSON",
        "assumptions": GO_ASSUME + ["reference model written from the method documentation in bar.go and the property statement; int64 wrap-around is not generated (no promise documented)", "a call that has not returned after 20 s (normal: microseconds) is reported as a hang"],
        "tiers": tiers(8, 12000, 16, 250000, t_fuzz=[{"target": "FuzzC09", "seconds": 90}]),
        "require_classes": ["mode:none", "mode:manual", "mode:autoinj", "total<=0", "trigger-enabled-later", "completed", "aborted", "refill-read", "statistics-read", "keeper", "abort-on-completed"],
    },
    "C20": {
        "rule": "cases = one of: size/counter decorators (Current/Total/Counters x unit x format flags,width,precision,verb x int64 values at unit boundaries, mantissa*unit values, random), percentage (current at k/2000 of total, products beyond 2^64), elapsed / ETA / average ETA over the four time styles with durations below 60 h, moving-average and average speed, estimator sample sequences (0-50 samples incl. zero-progress and zero-duration samples, 0-4 wrapper layers, direct or through Bar.EwmaIncrInt64, recording or median average), freeze of elapsed/average speed on completion; non-trivial = value >= 1 unit above b with precision>0 or at a unit boundary, 0<current<total for percentages, durations >= 1 min, a zero-progress sample followed by progress, a twin decorator that did move while the frozen one did not; distinct by FNV-64 of the case JSON",
        "assumptions": GO_ASSUME + [
            "tolerance = half a unit of the last printed digit for the verb/precision in use plus 8 ulp of float64 (the decorators compute in float64)",
            "values derived from time.Since are bracketed between two clock reads of the oracle; the printed value must be the truncation of some instant in the bracket",
            "verb b (binary exponent form) is not generated: Go cannot parse it back; speeds are kept <= 1e18 B/s (int64 bytes per second)",
        ],
        "tiers": tiers(8, 12000, 16, 300000, t_fuzz=[{"target": "FuzzC20", "seconds": 90}]),
        "require_classes": ["kind:size", "kind:pair", "kind:pct", "kind:elapsed", "kind:eta", "kind:avgeta", "kind:speed", "kind:avgspeed", "kind:ewma", "kind:freeze", "current>2^64/100", "value>2^53", "unit-boundary", "duration>=24h", "zero-then-progress", "via-bar", "wrap-depth:4", "twin-moved", "avg:median", "avg:hybrid", "render-between-samples", "age:past-warm-up", "avg:age", "plain-increment-between-samples"],
    },
    "C19": {
        "rule": "cases = (direction, underlying dynamic type: with/without Close x with/without WriteTo/ReadFrom, stream of 0-70000 bytes, bar total unknown/equal/above/below the stream length, 0-3 recording moving-average decorators under 0-3 wrapper layers, a script of up to 12 underlying results (byte limits incl. 0, errors with n>0, EOF with data, delays) and up to 12 consumer calls: Read/Write of generated sizes, io.Copy, io.ReadAll, direct WriteTo/ReadFrom, Close); non-trivial = >=3 transfers of >=2 sizes with an injected error/zero transfer or a fast-path type; distinct by FNV-64 of the case JSON",
        "assumptions": GO_ASSUME + ["differential oracle: the same script is played on a bare twin of the underlying value by the same consumer", "sample durations are only bounded from below by the time the scripted call slept (time.Sleep guarantees at least that)"],
        "tiers": tiers(8, 4000, 16, 100000, t_fuzz=[{"target": "FuzzC19", "seconds": 90}]),
        "require_classes": ["dir:read", "dir:write", "fast-path-type", "closer", "ewma", "capped", "ewma-samples-checked"],
    },
    "C06": {
        "rule": "cases = sequential manual-refresh scenarios (2-8 bars with and without BarPriority incl. equal and extreme values, SetPriority, UpdateBarPriority immediate and lazy, completions, aborts, removal, queued successors, pop mode, render cycles anywhere); non-trivial = a frame with >=3 bars, >=1 priority change and >=3 frames whose order is checked; distinct by FNV-64 of the scenario JSON",
        "assumptions": GO_ASSUME + SCHED_ASSUME + ["effective priorities come from the reference frame model (creation order, explicit priority, last immediate change, lazy change from the frame after next, predecessor's priority for a promoted successor, finishing order in pop mode); ties and the frame after a lazy change accept any order", "priorities are kept above the range pop mode reserves for finished bars (math.MinInt32 + number of popped bars)"],
        "tiers": tiers(8, 1500, 16, 40000),
        "require_classes": ["pop", "lazy-change", "immediate-change", "frame-after-lazy", "extreme-priority", "successor-displayed", "popped>=2", "priority-change-mid-render", "add-requests-frame"],
    },
    "C01": {
        "rule": "cases = concurrent scenarios: 1-9 bars, queue length from {default, 0, 1, 2, n-1, n, n+1}, refresh none/manual/injected auto/real ticker 1-3 ms, 0-2 synchronised decorators per side with wrapper stacks, pop mode, removal, queued successors, priority changes, 1-2 phases of 1-4 client goroutines issuing up to 10 operations each (updates, aborts, priority changes, Progress.Write, render ticks, late adds, getters, optional cancel/Shutdown), keyed delays at the hook points and one directed hold; every program ends by finishing all bars and calling Wait; non-trivial = >=2 bars and (sync decorators on >=2 bars, n>q, pop mode or concurrent clients); distinct by FNV-64 of the scenario JSON",
        "assumptions": GO_ASSUME + SCHED_ASSUME,
        "tiers": tiers(8, 1200, 16, 15000, gomaxprocs=[4, 2, 8, 1]),
        "require_classes": ["refresh:autort", "refresh:autoinj", "refresh:manual", "refresh:none", "n>q", "sync>=2bars", "n>q+sync", "pop", "cancelled", "hold", "user-waitgroup", "render-fault", "clocked", "delay-never-released", "decorator-reads-another-bar"],
    },
    "C02": {
        "rule": "cases = concurrent scenarios over the public API (Add, Write, UpdateBarPriority, every Bar mutator and getter, proxies, TraverseDecorators, DecoratorAverageAdjust, Bar.Wait) from 1-4 client goroutines in 1-2 phases, with context cancel or Shutdown inserted at a generated position inside a phase (60% of cases), all refresh modes, queue lengths incl. n>q, perturbation; then 1-12 late calls after Wait returned; non-trivial = the done event lies inside the history and there is >=1 late call; distinct by FNV-64 of the scenario JSON",
        "assumptions": GO_ASSUME + SCHED_ASSUME + ["a worker process that dies (panic in a library goroutine, fatal error) is a violation; the journalled scenario is the replay file", "documented panics (nil reader/writer to a proxy, MustAdd after done, uninitialised WC) are not generated"],
        "crash_is_violation": True,
        "tiers": tiers(8, 1200, 16, 15000, gomaxprocs=[4, 2, 8, 1]),
        "require_classes": ["refresh:autort", "refresh:autoinj", "refresh:manual", "refresh:none", "done-inside-history", "late-add", "late-write", "late-proxy", "n>q", "call-lost-race-with-done", "render-fault", "bar-id-option", "debug-output-nil"],
    },
    "C14": {
        "rule": "cases = programs with the cancel event (context cancel or Shutdown) (a) as a step anywhere in a sequential program, (b) inside a concurrent phase of 1-3 client goroutines, (c) fired from inside a library hook point (flush of a bar, bar render, render begin/end, heap-manager request, width sent/collected, bar exit) at occurrence 1-12; all refresh modes, 1-6 bars with shutdown-listening decorators under 0-3 wrapper layers, notifier configured or not; non-trivial = the cancel lands after >=1 Add with >=1 listener and an unfinished bar (or inside the library); distinct by FNV-64 of the scenario JSON",
        "assumptions": GO_ASSUME + SCHED_ASSUME + ["the set handed to the notifier is compared exactly only for clocked runs (frame model); otherwise it must be duplicate-free, inside the container and contain every bar that was still running and displayed", "hangs of runs that were never cancelled are left to C01"],
        "tiers": tiers(8, 1500, 16, 20000),
        "require_classes": ["refresh:manual", "refresh:autoinj", "refresh:autort", "refresh:none", "cancel-step", "cancel-in-concurrent-phase", "cancel-inside:flush.bar", "cancel-inside:bar.render", "cancel-inside:wc.sent", "cancel-inside:bar.exit", "listeners", "notifier", "notifier-exact", "cancel-with-render-delay", "delay-never-released", "output-failed"],
    },
    "C13": {
        "rule": "cases = concurrent scenarios with 1-4 client goroutines in 1-2 phases whose operations are ~50% Progress.Write calls with unique newline-terminated payloads (0-40 byte bodies) issued from a buffer that is overwritten after the call returns, racing with render cycles (real ticker, injected ticks, manual), completions, cancel/Shutdown (35%), the final render and Wait; plus 0-3 writes after Wait; non-trivial = >=1 successful write that overlapped a render cycle by event numbers, or a write that lost the race with the done event; distinct by FNV-64 of the scenario JSON",
        "assumptions": GO_ASSUME + SCHED_ASSUME + ["one output Write call = one frame; occurrences are searched in the concatenation of all chunks", "for manual refresh a successful write may stay unflushed when the program requests no further frame (the statement is about containers that refresh themselves)", "hangs are left to C01"],
        "tiers": tiers(8, 1500, 16, 20000),
        "require_classes": ["refresh:autort", "refresh:autoinj", "refresh:manual", "write-overlaps-render", "write-errdone", "writes>=2", "cancelled", "late-write", "repeated-payload", "unterminated-write", "write-after-delay", "write>32KiB"],
    },
    "C15": {
        "rule": "cases = fault plans: the k-th Fill of one bar, the k-th extender call of one bar, the k-th output Write (error or short write) or the k-th terminal-size query (pty) fails, k in 1..4 (half of the cases, so every site kind x small k is covered many times over) or 1..12; 1-6 bars with 0-2 synchronised decorators per side in every layout, slow decorators and directed holds between width exchange and flush, manual / injected auto / real ticker refresh, n<=q and n>q, containers with a render delay (pending, released by the program, or ended by the failing Fill call itself); non-trivial = the fault fired while >=2 bars carry synchronised decorators; distinct by FNV-64 of the scenario JSON",
        "assumptions": GO_ASSUME + SCHED_ASSUME + ["fault sites are enumerated by kind and small k through the generator's weighting, not by a nested loop", "hangs of runs whose fault never fired are left to C01", "a worker process that dies (panic in a library goroutine) is a violation: the statement says no panic; the journalled scenario is the replay file"],
        "level": "fault_enumeration",
        "crash_is_violation": True,
        "tiers": tiers(8, 1500, 16, 20000),
        "require_classes": ["refresh:manual", "refresh:autoinj", "refresh:autort", "fault:filler", "fault:extender", "fault:output", "fault:termsize", "others-sync", "hold", "two-faults-fired", "slow-debug-output", "write-after-error", "no-debug-output", "fault-with-render-delay", "fault-ends-render-delay"],
    },
    "C16": {
        "rule": "cases = scenarios drawn from the generators of C01 (concurrent clients, n>q, sync decorators), C15 (render faults at every site), C14 (cancel/Shutdown as a step) and C03 (auto refresh with early refresh, pop, queued bars), each run 1-4 times in a row in one process, followed by a goroutine-dump poll; non-trivial = auto refresh, a fired fault, a cancel or a notifier was involved; distinct by FNV-64 of the scenario JSON",
        "assumptions": GO_ASSUME + SCHED_ASSUME + ["a goroutine counts as leaked when it has a library frame or was created by library code, is blocked, and its stack is unchanged over 400 ms after everything else has finished; runnable leftovers make the case inconclusive", "containers are run one after another (the instrumentation hooks are process-global), not overlapping"],
        "tiers": tiers(8, 800, 16, 12000),
        "require_classes": ["refresh:autort", "refresh:autoinj", "refresh:manual", "refresh:none", "render-fault", "cancelled", "notifier", "repeated", "concurrent-clients", "narrow-container"],
    },
    "C10": {
        "rule": "cases = concurrent scenarios: 1-3 shared bars, 1-8 client goroutines x up to 16 operations in 1-2 phases (all mutators and getters, priorities, Write, late adds), render cycles from a 1 ms ticker / injected ticks / manual, completion, abort and bar exit anywhere, holds around the bar goroutine's exit; one third of the cases use non-negative increments only (quiescent sum); every case also runs in the -race shards; non-trivial = some bar was operated on by >=3 clients; distinct by FNV-64 of the scenario JSON",
        "assumptions": GO_ASSUME + SCHED_ASSUME + ["linearizability is decided by porcupine v1.3.0 on the recorded invoke/return history per bar (histories capped at 400 operations, 8 s timeout -> inconclusive)", "operations that reach a bar after its terminal event may be applied or dropped (both legal)", "the Go race detector only reports races on executed accesses; a report counts when the access sites of both goroutines are library code"],
        "crash_is_violation": True,
        "tiers": tiers(8, 600, 16, 12000, q_race_shards=6, q_race_checks=150, t_race_shards=8, t_race_checks=3000, race_gomaxprocs=4),
        "require_classes": ["refresh:autort", "refresh:autoinj", "refresh:manual", "refresh:none", "shared-bar>=3clients", "quiescent-sum", "getter-after-exit-with-later-render", "cancelled", "parallel-adds-shared-style", "successor-added-by-concurrent-client"],
    },
    "C03": {
        "rule": "cases = sequential programs on auto-refreshing containers (render requests injected by the harness racing with the library's early refresh, or a real 1-3 ms ticker): 1-6 bars with on-complete/on-abort fillers and decorator wrapper stacks, removal on completion, aborts with and without drop, pop mode, queued successors, post-terminal updates, optional cancel/Shutdown; non-trivial = >=2 bars, >=1 completed bar in the last frame and >=1 aborted, removed, popped or replaced bar, and no render-cycle step after the last update (the last frame has to come from early refresh or the final render); distinct by FNV-64 of the scenario JSON",
        "assumptions": GO_ASSUME + SCHED_ASSUME + ["which bars remain is computed from the program by a reference end-state model (first terminal event wins; successor replaces; pop mode pops out; remove-on-complete / abort with drop removes); under cancel/Shutdown only shown rows are judged", "hangs are left to C01 (counted, not judged here)"],
        "tiers": tiers(8, 2500, 16, 40000),
        "require_classes": ["refresh:autoinj", "refresh:autort", "final:completed", "final:aborted", "final:gone", "pop", "cancelled", "render-delay"],
    },
    "C12": {
        "rule": "cases = scenarios with 2-8 bars carrying 0-3 synchronised and 0-1 plain decorators per side (minimum widths 0-12, extra-space / right-indent flags, per-call texts of display width 0-16 incl. wide runes, 0-3 wrapper layers), membership changes between frames (late adds, completion with removal, abort with drop, pop mode, queued successors, cancel), manual refresh, injected auto refresh and a real ticker; non-trivial = some cycle has >=2 bars in one sync column, needs differ inside a column, and the set of rendered bars changes between cycles; distinct by FNV-64 of the scenario JSON",
        "assumptions": GO_ASSUME + SCHED_ASSUME + ["the need of a decorator is recomputed by the oracle from the text it formatted: max(W, width(text) + extra space); go-runewidth display widths", "all decorator calls of cycle k finish before cycle k+1 begins (flush waits for every bar), so probes are attributed to cycles exactly in every refresh mode", "hangs are left to C01"],
        "tiers": tiers(8, 1500, 16, 40000),
        "require_classes": ["shared-column", "needs-differ", "membership-change", "pop", "refresh:manual", "refresh:autoinj", "refresh:autort"],
    },
    "C11": {
        "rule": "cases = sequential programs on 1-3 bars that continue after the terminal event: Abort on bars at or below total, bars with total<=0, non-decreasing increments/SetCurrent, SetTotal, EnableTriggerComplete and further Aborts after abort or completion, getters, Bar.Wait, render cycles, cancel/Shutdown anywhere; refresh none, manual, injected auto (bar goroutine survives the terminal event) and a real ticker; non-trivial = >=1 mutator issued after the terminal event and >=1 read after it; distinct by FNV-64 of the scenario JSON",
        "assumptions": GO_ASSUME + SCHED_ASSUME + ["observations are ordered per observer (one client goroutine; frames in output order)", "updates after completion are generated non-decreasing only, as the statement requires", "hangs are left to C01"],
        "tiers": tiers(8, 2500, 16, 60000),
        "require_classes": ["refresh:none", "refresh:manual", "refresh:autoinj", "refresh:autort", "mutator-after-abort", "mutator-after-complete", "cancelled", "add-after-cancel", "concurrent-getters", "getters-after-bar-wait"],
    },
    "C04": {
        "rule": "cases = clocked scenarios (manual refresh) on byte buffers and on ptys of 2-8 rows x 40-100 columns: bars added, removed, popped, queued, extended with 1-3 extra rows above or below, text written between frames, render delay, bar counts below/at/above the height; plus non-terminal containers without refresh; every chunk is fed to the VT emulator and the screen+scrollback compared with persisted lines ++ rows of the frame; non-trivial = >=3 frames and (row counts differ, or a frame within one row of the height, or text between frames); distinct by FNV-64 of the scenario JSON",
        "assumptions": GO_ASSUME + SCHED_ASSUME + ["VT100-subset emulator (LF implies CR as on a tty with ONLCR, cursor up clamps at the top, erase below, autowrap at the right margin, scroll into scrollback at the bottom) is part of the trusted base", "which rows persist and how many rows a frame has comes from the reference frame model (exact for manual refresh, one client, n<=q)", "terminal resize between frames is not modelled"],
        "tiers": tiers(8, 1200, 16, 30000),
        "require_classes": ["refresh:manual", "refresh:none", "pty", "delay", "frame-near-height", "text-between-frames", "popped", "shutdown-while-delayed"],
    },
    "C18": {
        "rule": "cases = pop-completed scenarios: 1-8 bars finishing (complete, abort, abort with drop, remove-on-complete) in any order and in the same cycle, extender rows, text in between, no-pop bars, queued successors, byte buffers and ptys, manual refresh (exact frame model), injected auto refresh and a real ticker (final screen only); non-trivial = bars popped in >=2 different cycles and >=1 frame after the last pop (exact runs) or >=2 popped bars and >=4 frames; distinct by FNV-64 of the scenario JSON",
        "assumptions": GO_ASSUME + SCHED_ASSUME + ["final screen = scrollback + screen of the VT emulator after the whole output", "with more rows than the height, which of the bars still in the container the last frame shows is judged only under manual refresh (exact frame model); popped bars must be on screen exactly once in every mode", "hangs are left to C01"],
        "tiers": tiers(8, 2500, 16, 40000),
        "require_classes": ["refresh:manual", "refresh:autoinj", "refresh:autort", "pty", "exact-model", "popped>=2", "same-cycle-pops", "nopop", "extender", "text", "priority-change-mid-render", "rows-exceed-height"],
    },
    "C05": {
        "rule": "cases = sequential scenarios (container config, 1-7 bar specs, program of add/incr/set/abort/priority/write/tick/cancel steps) drawn by rapid; non-trivial = >=3 frames and >=1 change of the displayed set between frames; distinct by FNV-64 of the scenario JSON",
        "assumptions": GO_ASSUME + SCHED_ASSUME + ["one output Write call = one frame (cwriter flushes its buffer with a single Write)", "exact frame model only for manual refresh, sequential client and queue length > number of bars; otherwise history invariants"],
        "tiers": tiers(8, 1500, 16, 40000),
        "require_classes": ["exact-model", "membership-change", "pop", "refresh:autoinj", "clipped", "render-fault", "q<n", "concurrent-adders", "add-before-cycle-checked", "frame-fills-buffer-height"],
    },
    "C17": {
        "rule": "cases = sequential scenarios (3 of 4) with BarQueueAfter links (70% of bars), chains, pop mode, removal, aborts, manual and injected auto refresh, and concurrent scenarios (1 of 4: one client creates the bars while others finish them and request frames, real ticker or injected ticks, history invariants only); non-trivial = a successor created after its predecessor finished (before or after the hand-over frame), or a predecessor with >=2 successors, or a chain of >=3; distinct by FNV-64 of the scenario JSON",
        "assumptions": GO_ASSUME + SCHED_ASSUME,
        "tiers": tiers(8, 2000, 16, 40000),
        "require_classes": ["queued", "exact-model", "chain>=3", "successor-after-predecessor-finished", "refresh:autoinj", "add-requests-frame", "multi-successor", "late-successor", "late-successor-replaces-displayed-predecessor", "late-successors>=2-same-predecessor", "concurrent", "concurrent-multi-successor", "refresh:autort"],
    },
}
