// Package vstat collects per-run statistics (evidence counters) and failure
// files for the property checks. One collector per test process; the driver
// merges the files of all shards.
package vstat

import (
	"encoding/binary"
	"encoding/json"
	"fmt"
	"hash/fnv"
	"os"
	"sort"
	"sync"
)

const maxHashes = 1 << 20

type sample struct {
	Hash uint64      `json:"-"`
	Kind string      `json:"kind"`
	Case interface{} `json:"case"`
}

type Collector struct {
	mu           sync.Mutex
	Prop         string
	Evaluations  int64
	Nontrivial   int64
	Excluded     int64
	Inconclusive int64
	Classes      map[string]int64
	hashes       map[uint64]struct{}
	capped       bool
	first        *sample
	largest      *sample
	largestLen   int
	low          []sample // three lowest hashes among nontrivial cases
	Notes        []string
	Known        []string
}

var c = &Collector{Classes: map[string]int64{}, hashes: map[uint64]struct{}{}}

func Begin(prop string) {
	c.mu.Lock()
	c.Prop = prop
	c.mu.Unlock()
}

// HashJSON returns canonical JSON and its 64-bit FNV hash.
func HashJSON(v interface{}) ([]byte, uint64) {
	b, err := json.Marshal(v)
	if err != nil {
		panic(err)
	}
	h := fnv.New64a()
	h.Write(b)
	return b, h.Sum64()
}

func HashBytes(b []byte) uint64 {
	h := fnv.New64a()
	h.Write(b)
	return h.Sum64()
}

// Case records one evaluated case. v must be JSON-marshalable (it is the
// generated case); classes are labels for the class histogram.
func Case(v interface{}, nontrivial bool, classes ...string) {
	b, h := HashJSON(v)
	CaseHashed(h, len(b), func() interface{} { return json.RawMessage(b) }, nontrivial, classes...)
}

// CaseHashed is Case for callers that compute the hash themselves (cheap path).
func CaseHashed(h uint64, size int, mk func() interface{}, nontrivial bool, classes ...string) {
	c.mu.Lock()
	defer c.mu.Unlock()
	c.Evaluations++
	for _, k := range classes {
		c.Classes[k]++
	}
	if !nontrivial {
		return
	}
	c.Nontrivial++
	if _, ok := c.hashes[h]; ok {
		return
	}
	if len(c.hashes) < maxHashes {
		c.hashes[h] = struct{}{}
	} else {
		c.capped = true
	}
	if c.first == nil {
		c.first = &sample{h, "first", mk()}
	}
	if size > c.largestLen {
		c.largestLen = size
		c.largest = &sample{h, "largest", mk()}
	}
	if len(c.low) < 3 || h < c.low[len(c.low)-1].Hash {
		c.low = append(c.low, sample{h, "hash-order", mk()})
		sort.Slice(c.low, func(i, j int) bool { return c.low[i].Hash < c.low[j].Hash })
		if len(c.low) > 3 {
			c.low = c.low[:3]
		}
	}
}

func Class(k string, n int64) {
	c.mu.Lock()
	c.Classes[k] += n
	c.mu.Unlock()
}

func Excluded(n int64) {
	c.mu.Lock()
	c.Excluded += n
	c.mu.Unlock()
}

func Inconclusive(n int64) {
	c.mu.Lock()
	c.Inconclusive += n
	c.mu.Unlock()
}

func Note(s string) {
	c.mu.Lock()
	if len(c.Notes) < 50 {
		c.Notes = append(c.Notes, s)
	}
	c.mu.Unlock()
}

// Known records a KNOWN-FINDING line (printed by the driver).
func Known(line string) {
	c.mu.Lock()
	c.Known = append(c.Known, line)
	c.mu.Unlock()
	fmt.Println(line)
}

type out struct {
	Prop         string           `json:"prop"`
	Evaluations  int64            `json:"evaluations"`
	Nontrivial   int64            `json:"nontrivial"`
	Excluded     int64            `json:"excluded_known"`
	Inconclusive int64            `json:"inconclusive"`
	Classes      map[string]int64 `json:"classes"`
	Capped       bool             `json:"hashes_capped"`
	Samples      []sample         `json:"samples"`
	Notes        []string         `json:"notes,omitempty"`
	Known        []string         `json:"known,omitempty"`
	HashFile     string           `json:"hash_file"`
}

// Flush writes $VERIF_STATS (JSON) and $VERIF_STATS.hashes (sorted uint64 LE).
func Flush() {
	path := os.Getenv("VERIF_STATS")
	if path == "" {
		return
	}
	c.mu.Lock()
	defer c.mu.Unlock()
	o := out{Prop: c.Prop, Evaluations: c.Evaluations, Nontrivial: c.Nontrivial, Excluded: c.Excluded,
		Inconclusive: c.Inconclusive, Classes: c.Classes, Capped: c.capped, Notes: c.Notes, Known: c.Known,
		HashFile: path + ".hashes"}
	seen := map[uint64]bool{}
	add := func(s *sample) {
		if s != nil && !seen[s.Hash] {
			seen[s.Hash] = true
			o.Samples = append(o.Samples, *s)
		}
	}
	add(c.first)
	add(c.largest)
	for i := range c.low {
		add(&c.low[i])
	}
	hs := make([]uint64, 0, len(c.hashes))
	for h := range c.hashes {
		hs = append(hs, h)
	}
	sort.Slice(hs, func(i, j int) bool { return hs[i] < hs[j] })
	buf := make([]byte, 8*len(hs))
	for i, h := range hs {
		binary.LittleEndian.PutUint64(buf[8*i:], h)
	}
	_ = os.WriteFile(o.HashFile, buf, 0o644)
	b, _ := json.Marshal(o)
	_ = os.WriteFile(path, b, 0o644)
}

// Failure is the replay file format: the property, the oracle message and the
// generated case (property specific JSON).
type Failure struct {
	Property string          `json:"property"`
	Kind     string          `json:"kind"`
	Message  string          `json:"message"`
	Case     json.RawMessage `json:"case"`
}

// Fail writes the failing case to $VERIF_FAIL (overwritten on every failure;
// rapid re-runs the minimal case last, so the file ends up holding it).
func Fail(prop, kind string, v interface{}, msg string) {
	path := os.Getenv("VERIF_FAIL")
	if path == "" {
		return
	}
	b, _ := json.Marshal(v)
	f := Failure{Property: prop, Kind: kind, Message: msg, Case: b}
	out, _ := json.MarshalIndent(f, "", " ")
	_ = os.WriteFile(path, out, 0o644)
}

// Journal writes the case about to be executed to $VERIF_JOURNAL so that a
// process crash (panic in a library goroutine, race detector exit) leaves the
// culprit behind.
func Journal(prop string, v interface{}) {
	path := os.Getenv("VERIF_JOURNAL")
	if path == "" {
		return
	}
	b, _ := json.Marshal(v)
	f := Failure{Property: prop, Kind: "crash", Message: "process died while executing this case", Case: b}
	out, _ := json.Marshal(f)
	_ = os.WriteFile(path, out, 0o644)
}

// LoadFailure reads a replay file.
func LoadFailure(path string) (*Failure, error) {
	b, err := os.ReadFile(path)
	if err != nil {
		return nil, err
	}
	var f Failure
	if err := json.Unmarshal(b, &f); err != nil {
		return nil, err
	}
	return &f, nil
}
