package engine

import (
	"bytes"
	"fmt"
	"regexp"
	"strconv"
	"strings"

	"verif/harness/vpty"
)

// Row is one parsed line of a frame.
type Row struct {
	Kind string // "bar" (main row of a bar), "ext" (extender row), "text" (user line), "other"
	Bar  int
	Ext  int
	Cur  int64
	Tot  int64
	Flag string // r running, C completed, A aborted, X both
	Ref  int64
	Raw  string
}

// Frame is one flushed frame.
type Frame struct {
	Index   int
	Seq     int64
	CUU     int  // cursor-up count at the start of the chunk (0 = none)
	ED      bool // erase-display present
	Lines   []Row
	Raw     []byte
	Partial bool // last line not newline-terminated
	BadCtl  string
}

var cuuRe = regexp.MustCompile(`^\x1b\[(\d+)A\x1b\[J`)
var tagRe = regexp.MustCompile(`^b(\d+):(-?\d+)/(-?\d+):([rCAX]):(-?\d+)\|`)
var extRe = regexp.MustCompile(`^e(\d+)\.(\d+)$`)
var sgrRe = regexp.MustCompile(`\x1b\[[0-9;]*m`)

// ParseFrame parses one output chunk.
func ParseFrame(index int, seq int64, data []byte) Frame {
	f := Frame{Index: index, Seq: seq, Raw: data}
	rest := data
	if m := cuuRe.FindSubmatch(rest); m != nil {
		f.CUU, _ = strconv.Atoi(string(m[1]))
		f.ED = true
		rest = rest[len(m[0]):]
	}
	if len(rest) == 0 {
		return f
	}
	body := string(rest)
	if !strings.HasSuffix(body, "\n") {
		f.Partial = true
	} else {
		body = body[:len(body)-1]
	}
	for _, ln := range strings.Split(body, "\n") {
		ln = strings.TrimSuffix(ln, "\r")
		plain := sgrRe.ReplaceAllString(ln, "")
		if strings.Contains(plain, "\x1b") && f.BadCtl == "" {
			f.BadCtl = fmt.Sprintf("unexpected control sequence in line %q", ln)
		}
		row := Row{Raw: ln, Bar: -1, Ext: -1}
		if m := tagRe.FindStringSubmatch(plain); m != nil {
			row.Kind = "bar"
			row.Bar, _ = strconv.Atoi(m[1])
			row.Cur, _ = strconv.ParseInt(m[2], 10, 64)
			row.Tot, _ = strconv.ParseInt(m[3], 10, 64)
			row.Flag = m[4]
			row.Ref, _ = strconv.ParseInt(m[5], 10, 64)
		} else if m := extRe.FindStringSubmatch(plain); m != nil {
			row.Kind = "ext"
			row.Bar, _ = strconv.Atoi(m[1])
			row.Ext, _ = strconv.Atoi(m[2])
		} else if strings.HasPrefix(plain, "w") && strings.Contains(plain, ":") {
			row.Kind = "text"
		} else {
			row.Kind = "other"
		}
		f.Lines = append(f.Lines, row)
	}
	return f
}

// Frames parses every recorded chunk (buffer outputs) or the pty stream split
// at the per-frame marker.
func (t *Trace) Frames() []Frame {
	var out []Frame
	if t.PtyStream != nil {
		parts := bytes.Split(t.PtyStream, []byte(vpty.Marker))
		for i, p := range parts {
			if len(p) == 0 {
				continue
			}
			out = append(out, ParseFrame(i, 0, p))
		}
		return out
	}
	for i, c := range t.Chunks {
		out = append(out, ParseFrame(i, c.Seq, c.Data))
	}
	return out
}

// BarOrder returns the bar indices of the main rows, top to bottom.
func (f *Frame) BarOrder() []int {
	var o []int
	for _, l := range f.Lines {
		if l.Kind == "bar" {
			o = append(o, l.Bar)
		}
	}
	return o
}

// BarRow returns the main row of a bar (nil if absent).
func (f *Frame) BarRow(bar int) *Row {
	for i := range f.Lines {
		if f.Lines[i].Kind == "bar" && f.Lines[i].Bar == bar {
			return &f.Lines[i]
		}
	}
	return nil
}

func (f *Frame) Count(bar int) int {
	n := 0
	for _, l := range f.Lines {
		if l.Kind == "bar" && l.Bar == bar {
			n++
		}
	}
	return n
}

func (f *Frame) Texts() []string {
	var o []string
	for _, l := range f.Lines {
		if l.Kind == "text" {
			o = append(o, l.Raw)
		}
	}
	return o
}
