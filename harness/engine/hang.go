package engine

import (
	"regexp"
	"runtime"
	"sort"
	"strings"
	"time"
)

// G is one parsed goroutine of a runtime.Stack(all) dump.
type G struct {
	ID    string
	State string // e.g. "chan receive", "select", "running"
	Stack string // frames (function names only), joined
	Lib   bool   // has a github.com/vbauerster/mpb/v8 frame
	Eng   bool   // has a verif/harness/engine frame (client side of a scenario)
	Top   string // innermost library or engine function
}

var gHeader = regexp.MustCompile(`^goroutine (\d+) \[([^\]]+)\]:$`)

const libPrefix = "github.com/vbauerster/mpb/v8"
const engPrefix = "verif/harness/engine"

// Snapshot returns all goroutines except the caller.
func Snapshot() []G {
	buf := make([]byte, 1<<20)
	for {
		n := runtime.Stack(buf, true)
		if n < len(buf) {
			buf = buf[:n]
			break
		}
		buf = make([]byte, 2*len(buf))
	}
	var out []G
	for i, blk := range strings.Split(string(buf), "\n\n") {
		lines := strings.Split(strings.TrimSpace(blk), "\n")
		if len(lines) == 0 {
			continue
		}
		m := gHeader.FindStringSubmatch(lines[0])
		if m == nil {
			continue
		}
		if i == 0 {
			continue // the caller itself
		}
		g := G{ID: m[1], State: m[2]}
		if j := strings.Index(g.State, ","); j >= 0 {
			g.State = g.State[:j] // drop ", 2 minutes" / ", locked to thread"
		}
		var fns []string
		for _, ln := range lines[1:] {
			if strings.HasPrefix(ln, "\t") || strings.HasPrefix(ln, "created by ") {
				if strings.HasPrefix(ln, "created by ") {
					fn := strings.TrimPrefix(ln, "created by ")
					if k := strings.Index(fn, " in goroutine"); k >= 0 {
						fn = fn[:k]
					}
					fns = append(fns, "created by "+fn)
					if strings.HasPrefix(fn, libPrefix) {
						g.Lib = true
					}
				}
				continue
			}
			fn := ln
			if k := strings.LastIndex(fn, "("); k > 0 {
				fn = fn[:k]
			}
			fns = append(fns, fn)
			if strings.HasPrefix(fn, libPrefix) {
				g.Lib = true
				if g.Top == "" {
					g.Top = fn
				}
			} else if strings.HasPrefix(fn, engPrefix) {
				g.Eng = true
				if g.Top == "" {
					g.Top = fn
				}
			}
		}
		g.Stack = strings.Join(fns, " < ")
		out = append(out, g)
	}
	return out
}

func blockedState(s string) bool {
	switch s {
	case "chan receive", "chan send", "select", "semacquire", "sync.Mutex.Lock", "sync.Cond.Wait",
		"select (no cases)", "sync.WaitGroup.Wait", "chan receive (nil chan)", "chan send (nil chan)", "sync.RWMutex.Lock", "sync.RWMutex.RLock":
		return true
	}
	return false
}

// relevant goroutines of a scenario: library goroutines and engine (client) goroutines,
// minus the engine's own service goroutines.
func relevant(gs []G) []G {
	var out []G
	for _, g := range gs {
		if !(g.Lib || g.Eng) {
			continue
		}
		out = append(out, g)
	}
	return out
}

func signature(gs []G) string {
	var s []string
	for _, g := range gs {
		s = append(s, g.ID+"|"+g.State+"|"+g.Stack)
	}
	sort.Strings(s)
	return strings.Join(s, "\n")
}

// allBlocked reports whether every relevant goroutine is in a blocked state.
func allBlocked(gs []G) bool {
	for _, g := range gs {
		if !blockedState(g.State) {
			return false
		}
	}
	return true
}

// Summary of where goroutines are blocked, for messages.
func Summary(gs []G) []string {
	var s []string
	for _, g := range gs {
		top := g.Top
		top = strings.TrimPrefix(top, libPrefix)
		s = append(s, "["+g.State+"] "+top)
	}
	sort.Strings(s)
	return s
}

// LibGoroutines returns the goroutines that run library code or were created
// by library code.
func LibGoroutines() []G {
	var out []G
	for _, g := range Snapshot() {
		if g.Lib {
			out = append(out, g)
		}
	}
	return out
}

// WaitNoLibGoroutines polls until no library goroutine is left (returns nil),
// or returns the leftovers once they are blocked and unchanged over two
// consecutive looks at least stable apart. Goroutines still runnable keep the
// poll going until maxWait; then ok=false means "could not decide".
func WaitNoLibGoroutines(stable, maxWait time.Duration, ignore func(G) bool) (left []G, decided bool) {
	deadline := time.Now().Add(maxWait)
	var lastSig string
	var lastAt time.Time
	for i := 0; ; i++ {
		var gs []G
		for _, g := range LibGoroutines() {
			if ignore != nil && ignore(g) {
				continue
			}
			gs = append(gs, g)
		}
		if len(gs) == 0 {
			return nil, true
		}
		if allBlocked(gs) {
			sig := signature(gs)
			if sig == lastSig {
				if time.Since(lastAt) >= stable {
					return gs, true
				}
			} else {
				lastSig, lastAt = sig, time.Now()
			}
		} else {
			lastSig = ""
		}
		if time.Now().After(deadline) {
			return gs, false
		}
		if i < 20 {
			runtime.Gosched()
			time.Sleep(50 * time.Microsecond)
		} else {
			time.Sleep(2 * time.Millisecond)
		}
	}
}
