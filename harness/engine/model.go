package engine

import (
	"math"
	"sort"
)

// MBar is the reference model of a bar's counters (sequential rules from the
// documentation of Bar's methods).
type MBar struct {
	Total, Cur, Refill int64
	Trig               bool
	Abrt               bool
	Drop               bool
}

func NewMBar(total int64) *MBar { return &MBar{Total: total, Trig: total > 0} }

func (m *MBar) Completed() bool { return m.Trig && !m.Abrt && m.Cur == m.Total }
func (m *MBar) Terminal() bool  { return m.Abrt || m.Completed() }

func (m *MBar) clamp() {
	if m.Trig && m.Cur >= m.Total {
		m.Cur = m.Total
	}
}

// IncrOK reports whether adding n keeps the counter inside int64.
func (m *MBar) IncrOK(n int64) bool {
	if n > 0 {
		return m.Cur <= math.MaxInt64-n
	}
	return m.Cur >= math.MinInt64-n
}

func (m *MBar) Incr(n int64) { m.Cur += n; m.clamp() }

func (m *MBar) SetCurrent(c int64) {
	if c < 0 {
		return
	}
	m.Cur = c
	m.clamp()
}

func (m *MBar) SetTotal(t int64, complete bool) {
	if m.Trig {
		return
	}
	if t < 0 {
		m.Total = m.Cur
	} else {
		m.Total = t
	}
	if complete {
		m.Cur = m.Total
		m.Trig = true
	}
}

func (m *MBar) EnableTrigger() {
	if m.Trig {
		return
	}
	if m.Cur >= m.Total {
		m.Cur = m.Total
	}
	m.Trig = true
}

func (m *MBar) SetRefill(a int64) {
	if a < m.Cur {
		m.Refill = a
	} else {
		m.Refill = m.Cur
	}
}

func (m *MBar) Abort(drop bool) {
	if m.Abrt || m.Completed() {
		return
	}
	m.Abrt = true
	m.Drop = drop
	m.Trig = true
}

// Apply executes one mutator step on the model; returns false for non-mutators.
func (m *MBar) Apply(st *Step) bool {
	switch st.Op {
	case "incr":
		n := st.N
		switch st.Text {
		case "one", "ewmaone":
			n = 1
		}
		m.Incr(n)
	case "setcur":
		m.SetCurrent(st.N)
	case "settotal":
		m.SetTotal(st.N, st.Flag)
	case "etc":
		m.EnableTrigger()
	case "refill":
		m.SetRefill(st.N)
	case "abort":
		m.Abort(st.Flag)
	default:
		return false
	}
	return true
}

// ---- container / frame model (manual refresh, sequential client, n <= q) ----

// MFrame is what the model predicts for one render cycle.
type MFrame struct {
	// Groups top to bottom; bars with equal priority may appear in any relative order.
	Order       []int       // one admissible top-to-bottom order
	Prio        map[int]int // priority of every shown bar in this frame
	Unordered   bool        // frame right after a lazy priority change: any order
	SD          map[int]int // terminal-frame counter shown for terminal bars (0,1,2..)
	State       map[int]MBar
	Persist     []int       // bars whose rows become persistent with this frame (popped)
	Text        []string    // user text carried by this frame
	Rows        map[int]int // rows (main+extender) per shown bar
	Height      int
	NextCUU     int // cursor-up count the next frame must start with
	CUU         int // cursor-up count this frame starts with
	ExtRev      map[int]bool
	Visible     []int // bars whose main row survives the height limit, top to bottom
	WriteFailed bool  // the output writer returned an error for this frame (its bytes are lost or cut)
	Ambiguous   bool  // clipped frame whose cut depends on the order of equal priorities (or a lazy change)
}

type mcBar struct {
	m      *MBar
	added  bool
	inHeap bool
	parked bool
	prio   int
	sd     int // number of terminal frames rendered so far
	fills  int // Fill calls so far
	exts   int // extender calls so far
	spec   *BarSpec
	gone   bool // left the container (removed or popped out)
	popped bool
	handed bool // its hand-over frame (second terminal frame) has been flushed
}

// Sim simulates a sequential manual-refresh scenario. It returns the predicted
// frames, or ok=false when the scenario leaves the region the model is exact
// for (concurrency, n>q, post-abort mutators, faults).
type Sim struct {
	Frames    []MFrame
	Bars      []*mcBar
	OK        bool
	Why       string
	PopOrder  []int
	Cancelled bool
	Displayed map[int]bool // bars that were ever displayed
	FinalHeap []int        // bars still in the container at the end
	LateSucc  []int        // successors created after their predecessor's hand-over frame (they come in at once)
	Overwrote []int        // successors that share their predecessor with an earlier successor
	Replaced  []int        // finished bars that were still in the container when a late successor took their place
	PopTick   map[int]int  // bar -> render cycle (1-based) in which it was moved to the top
	Fills     map[int]int  // bar -> number of times its filler was called
	Errored   bool         // a filler/extender fault ended rendering
	ErrBar    int
	Clipped   bool // some frame could not show every bar of the container
}

func (s *Sim) fail(why string) { s.OK = false; s.Why = why }

func Simulate(sc *Scenario) *Sim {
	s := &Sim{OK: true, Displayed: map[int]bool{}, PopTick: map[int]int{}, Fills: map[int]int{}}
	ticks := 0
	if sc.Cfg.Refresh != "manual" {
		s.fail("not manual refresh")
		return s
	}
	if sc.SizeErrAt > 0 || (sc.OutErrAt > 0 && sc.Cfg.PtyRows > 0) {
		s.fail("faults")
		return s
	}
	height := sc.Cfg.Width
	if height <= 0 {
		height = 80
	}
	if sc.Cfg.PtyRows > 0 {
		// a terminal keeps one line for the cursor, which rests below the last row
		height = sc.Cfg.PtyRows - 1
	}
	for i := range sc.Bars {
		s.Bars = append(s.Bars, &mcBar{spec: &sc.Bars[i]})
	}
	idCount := 0
	popPrio := math.MinInt32
	queue := map[int][]int{} // predecessor -> successors waiting for its hand-over frame
	var pendingText []string
	lazyDirty := false
	delayed := sc.Cfg.Delay
	nextCUU := 0
	// a tick that carries a priority change: the change is issued while the cycle
	// renders and cannot be served before it is over, i.e. it takes effect right
	// after that frame
	var steps []Step
	for _, st := range sc.Steps {
		switch {
		case st.Op == "tick" && st.Text == "prio":
			steps = append(steps, Step{Op: "tick"}, Step{Op: "prio", Bar: st.Bar, N: st.N})
		case st.Op == "tick" && (st.Text == "uprio" || st.Text == "uprio-lazy"):
			steps = append(steps, Step{Op: "tick"}, Step{Op: "uprio", Bar: st.Bar, N: st.N, Flag: st.Text == "uprio-lazy"})
		case st.Op == "add" && st.Flag && (sc.Cfg.Refresh == "manual" || sc.Cfg.Refresh == "autoinj"):
			// a frame requested from inside an option callback of Add is served once Add is through
			steps = append(steps, Step{Op: "add", Bar: st.Bar}, Step{Op: "tick"})
		default:
			steps = append(steps, st)
		}
	}
	applyPrio := func(b *mcBar, n int64, lazy bool) {
		if b == nil || !b.added {
			return
		}
		if !b.inHeap || b.popped {
			return // parked, gone, or popped to the top (its place is final): ignored by the heap manager
		}
		b.prio = int(n)
		if lazy {
			lazyDirty = true
		}
	}
	// epilogue: finishing the bars (no frames follow in manual mode)
	for i := range steps {
		st := &steps[i]
		if len(st.Par) > 0 || st.Op == "par" {
			s.fail("concurrent block")
			return s
		}
		if s.Cancelled && st.Op != "get" {
			continue
		}
		var b *mcBar
		if st.Bar >= 0 && st.Bar < len(s.Bars) {
			b = s.Bars[st.Bar]
		}
		switch st.Op {
		case "add":
			if b == nil || b.added {
				continue
			}
			b.added = true
			b.m = NewMBar(b.spec.Total)
			b.prio = idCount
			if b.spec.Priority != nil {
				b.prio = *b.spec.Priority
			}
			idCount++
			if a := b.spec.QueueAfter; a >= 0 && a < len(s.Bars) && s.Bars[a].added {
				pred := s.Bars[a]
				if len(queue[a]) > 0 {
					s.Overwrote = append(s.Overwrote, st.Bar)
				}
				if pred.handed {
					// the predecessor has been through its hand-over frame: the bar
					// comes in at once, in the predecessor's place (a predecessor that
					// is still in the container leaves; one that was popped to the top
					// keeps its final place and the bar its own priority)
					s.LateSucc = append(s.LateSucc, st.Bar)
					if !pred.popped {
						b.prio = pred.prio
						if pred.inHeap {
							pred.inHeap, pred.gone = false, true
							s.Replaced = append(s.Replaced, a)
						}
					}
					b.inHeap = true
				} else {
					queue[a] = append(queue[a], st.Bar)
					b.parked = true
				}
			} else {
				b.inHeap = true
			}
		case "incr", "setcur", "settotal", "etc", "refill", "abort":
			if b == nil || !b.added {
				continue
			}
			if b.m.Terminal() {
				if b.m.Abrt && st.Op != "abort" {
					s.fail("mutator after abort (races with the bar's shutdown in manual mode)")
					return s
				}
				if st.Op == "setcur" && st.N < b.m.Cur || st.Op == "incr" && st.N < 0 {
					s.fail("decreasing update after completion")
					return s
				}
				continue // dropped or invisible
			}
			if st.Op == "incr" && !b.m.IncrOK(st.N) {
				s.fail("overflow")
				return s
			}
			b.m.Apply(st)
		case "prio", "uprio":
			applyPrio(b, st.N, st.Op == "uprio" && st.Flag)
		case "write":
			if !delayed {
				pendingText = append(pendingText, st.Text)
			}
		case "release":
			delayed = false
		case "cancel", "shutdown":
			s.Cancelled = true
		case "tick":
			if delayed {
				// frames are rendered into a discarding writer: nothing observable,
				// but shutdown counters advance
			}
			ticks++
			f := MFrame{Prio: map[int]int{}, SD: map[int]int{}, State: map[int]MBar{}, Rows: map[int]int{}, Height: height, ExtRev: map[int]bool{}}
			var shown []int
			for i, x := range s.Bars {
				if x.added && x.inHeap {
					shown = append(shown, i)
				}
			}
			sort.SliceStable(shown, func(a, c int) bool { return s.Bars[shown[a]].prio < s.Bars[shown[c]].prio })
			f.Order = shown
			f.Unordered = lazyDirty
			lazyDirty = false
			f.Text = pendingText
			pendingText = nil
			// iterate bottom to top like flush does
			rowsTotal, popCount := 0, 0
			type act struct{ bar, kind int }
			var pushes []int
			// every shown bar is rendered (filler and extender called) before flush
			// looks at the first frame
			failing := map[int]bool{}
			for _, i := range shown {
				x := s.Bars[i]
				x.fills++
				if x.spec.FillErrAt > 0 && x.fills == x.spec.FillErrAt {
					failing[i] = true
					continue
				}
				if x.spec.ExtRows > 0 || x.spec.ExtErrAt > 0 {
					x.exts++
					if x.spec.ExtErrAt > 0 && x.exts == x.spec.ExtErrAt {
						failing[i] = true
					}
				}
			}
			errored := false
			cut := false
			popOld := map[int]int{} // bars popped in this cycle -> priority they had
			nrowsOf := func(x *mcBar) int {
				n := 1 + x.spec.ExtRows
				if x.spec.ExtNoNL && x.spec.ExtRows > 0 {
					n-- // an unterminated last extender line is dropped
				}
				return n
			}
			// rows of the bars that are drawn for the last time in this frame
			// (moved to the top one frame earlier) are to stay on screen: they are
			// never cut; the height limit takes the top-most of the other rows
			persisting := map[int]bool{}
			persistRows := 0
			for _, i := range shown {
				x := s.Bars[i]
				if x.m.Terminal() && x.sd == 2 && sc.Cfg.Pop && !x.spec.NoPop {
					persisting[i] = true
					persistRows += nrowsOf(x)
				}
			}
			budget := height - persistRows
			if budget < 0 {
				budget = 0
			}
			runningRows := 0
			for k := len(shown) - 1; k >= 0; k-- {
				i := shown[k]
				x := s.Bars[i]
				if failing[i] {
					if f.Unordered {
						s.fail("fault in the frame after a lazy priority change: flush order unspecified")
						return s
					}
					for _, j := range shown {
						if j != i && s.Bars[j].prio == x.prio {
							s.fail("fault on a bar whose priority ties with another bar: flush order unspecified")
							return s
						}
					}
					// flush returns the error: the bar it was looking at is not put
					// back, the rest of the heap stays, nothing is written
					x.inHeap, x.gone = false, true
					errored = true
					s.Errored, s.ErrBar = true, i
					break
				}
				f.Prio[i] = x.prio
				f.State[i] = *x.m
				nrows := nrowsOf(x)
				used := 0
				if persisting[i] {
					used = nrows
					rowsTotal += nrows
				} else {
					for r := 0; r < nrows; r++ {
						if runningRows < budget {
							runningRows++
							rowsTotal++
							used++
						}
					}
				}
				f.Rows[i] = used
				f.ExtRev[i] = x.spec.ExtRev
				if (x.spec.ExtRev && used >= 1) || (!x.spec.ExtRev && used == nrows) {
					f.Visible = append([]int{i}, f.Visible...)
				}
				if used < nrows {
					s.Clipped = true
					cut = true
				}
				s.Displayed[i] = true
				if !x.m.Terminal() {
					continue
				}
				f.SD[i] = x.sd
				sd := x.sd
				x.sd++
				switch sd {
				case 1:
					x.handed = true
					if succs, ok := queue[i]; ok {
						delete(queue, i)
						x.inHeap, x.gone = false, true
						for _, succ := range succs {
							sb := s.Bars[succ]
							sb.parked, sb.inHeap = false, true
							sb.prio = x.prio
							pushes = append(pushes, succ)
						}
					} else if sc.Cfg.Pop && !x.spec.NoPop {
						popOld[i] = x.prio
						s.PopTick[i] = ticks
						x.prio = popPrio
						popPrio++
						x.popped = true
						s.PopOrder = append(s.PopOrder, i)
					} else if (x.m.Abrt && x.m.Drop) || (!x.m.Abrt && x.spec.RmOnComplete) {
						x.inHeap, x.gone = false, true
					}
				case 2:
					if sc.Cfg.Pop && !x.spec.NoPop {
						popCount += used
						x.inHeap, x.gone = false, true
						f.Persist = append(f.Persist, i)
					}
				}
			}
			_ = pushes
			// bars that finish in the same cycle with equal priorities (or in the
			// unordered frame after a lazy change) pop in unspecified order
			for a, pa := range popOld {
				for b, pb := range popOld {
					if a != b && (pa == pb || f.Unordered) && s.Bars[b].prio < s.Bars[a].prio {
						s.Bars[a].prio = s.Bars[b].prio
					}
				}
			}
			if cut {
				seen := map[int]bool{}
				for _, i := range shown {
					if seen[f.Prio[i]] {
						f.Ambiguous = true
					}
					seen[f.Prio[i]] = true
				}
				if f.Unordered {
					f.Ambiguous = true
				}
			}
			if errored {
				s.Cancelled = true
				continue
			}
			if n := rowsTotal - popCount; n > 0 {
				f.NextCUU = n
			}
			if delayed {
				continue // nothing reaches the output
			}
			// the frame is written only if the buffer holds something: the pending
			// cursor-up sequence, user text, or rows
			wrote := nextCUU > 0 || len(f.Text) > 0 || rowsTotal > 0
			f.CUU = nextCUU
			nextCUU = f.NextCUU
			if !wrote {
				continue
			}
			if sc.OutErrAt > 0 && len(s.Frames)+1 == sc.OutErrAt {
				// the output writer fails on this frame: the bars were already put
				// back, the container shuts down and draws nothing more
				f.WriteFailed = true
				s.Errored, s.ErrBar, s.Cancelled = true, -1, true
			}
			s.Frames = append(s.Frames, f)
		}
	}
	for i, x := range s.Bars {
		if x.added && x.inHeap {
			s.FinalHeap = append(s.FinalHeap, i)
		}
		s.Fills[i] = x.fills
	}
	return s
}

// ---- end state of a sequential program (any refresh mode) -----------------

// EndBar is the state a bar must have reached when Wait returns.
type EndBar struct {
	Added     bool
	Completed bool
	Aborted   bool
	Drop      bool // aborted with drop
	ByCancel  bool // ended only by cancel / Shutdown
}

// EndState walks a sequential program (no par blocks) with the bar model and
// returns how every bar ends: the first terminal event decides (a completed bar
// stays completed, an aborted one stays aborted), the epilogue finishes what is
// left, a cancel/shutdown step aborts what is unfinished. ok=false for programs
// with concurrent blocks.
func EndState(sc *Scenario) (end []EndBar, cancelled bool, ok bool) {
	ms := make([]*MBar, len(sc.Bars))
	end = make([]EndBar, len(sc.Bars))
	for i := range sc.Steps {
		st := &sc.Steps[i]
		if st.Op == "par" || len(st.Par) > 0 {
			return nil, false, false
		}
		if st.Op == "cancel" || st.Op == "shutdown" {
			cancelled = true
			// an Add that follows may still be accepted (it races with the shutdown):
			// such a bar is ended by the cancellation at once
			for _, st2 := range sc.Steps[i+1:] {
				if st2.Op == "add" && st2.Bar >= 0 && st2.Bar < len(ms) && ms[st2.Bar] == nil {
					ms[st2.Bar] = NewMBar(sc.Bars[st2.Bar].Total)
					end[st2.Bar].Added = true
				}
			}
			break
		}
		if st.Bar < 0 || st.Bar >= len(ms) {
			continue
		}
		if st.Op == "add2" {
			for _, k := range []int{st.Bar, int(st.N)} {
				if k >= 0 && k < len(ms) && ms[k] == nil {
					ms[k] = NewMBar(sc.Bars[k].Total)
					end[k].Added = true
				}
			}
			continue
		}
		if st.Op == "add" {
			if ms[st.Bar] == nil {
				ms[st.Bar] = NewMBar(sc.Bars[st.Bar].Total)
				end[st.Bar].Added = true
			}
			continue
		}
		if m := ms[st.Bar]; m != nil && !m.Terminal() {
			if st.Op == "incr" && !m.IncrOK(st.N) {
				return nil, false, false
			}
			m.Apply(st)
		}
	}
	for i, m := range ms {
		if m == nil {
			continue
		}
		if !m.Terminal() {
			if cancelled {
				m.Abrt = true
				end[i].ByCancel = true
			} else {
				how := sc.Epilogue
				if how == "mixed" {
					how = "complete"
					if i%2 == 1 {
						how = "abort"
					}
				}
				switch how {
				case "abort":
					m.Abort(i%3 == 0)
				case "none":
					return nil, false, false
				default:
					// SetTotal(-1, true) then SetCurrent(max): completes whatever the trigger state
					if !m.Trig {
						m.Total = m.Cur
					}
					m.Trig, m.Cur = true, m.Total
				}
			}
		}
		end[i].Completed, end[i].Aborted, end[i].Drop = m.Completed(), m.Abrt, m.Abrt && m.Drop
	}
	return end, cancelled, true
}

// FinalContainer returns, for a run that ended by a plain Wait (no cancel),
// which bars must be in the last frame: added, displayed at some point (not
// parked behind a bar that was itself never displayed), and not replaced by a
// successor, popped out or removed.
func FinalContainer(sc *Scenario, end []EndBar) map[int]bool {
	succ := map[int]int{} // predecessor -> successor (the last one added wins; generators avoid two)
	for i, b := range sc.Bars {
		if end[i].Added && b.QueueAfter >= 0 && b.QueueAfter < len(sc.Bars) && end[b.QueueAfter].Added {
			succ[b.QueueAfter] = i
		}
	}
	in := map[int]bool{}
	for i, b := range sc.Bars {
		if !end[i].Added {
			continue
		}
		if _, has := succ[i]; has {
			continue // replaced by its successor
		}
		if sc.Cfg.Pop && !b.NoPop {
			continue // popped out
		}
		if (end[i].Completed && b.RmOnComplete) || end[i].Drop {
			continue
		}
		in[i] = true
	}
	return in
}
