// Package engine executes generated scenarios against the real mpb library and
// records what can be observed: output writes (one per frame), hook events,
// results of client calls, decorator calls, shutdown notifications, goroutine
// state. Oracles over the recorded Trace live with the properties.
package engine

// Config describes the container.
type Config struct {
	Refresh           string `json:"refresh"`            // none | manual | autoinj | autort
	RateMs            int    `json:"rate_ms,omitempty"`  // autort: ticker period in ms
	QueueLen          int    `json:"qlen"`               // heap manager queue length; -1 = library default
	Width             int    `json:"width,omitempty"`    // WithWidth; 0 = not set
	Pop               bool   `json:"pop,omitempty"`      // PopCompletedMode
	PtyRows           int    `json:"pty_rows,omitempty"` // >0: output is a pty of this size
	PtyCols           int    `json:"pty_cols,omitempty"`
	Delay             bool   `json:"delay,omitempty"`               // WithRenderDelay, released by a "release" step
	DelaySleepRelease bool   `json:"delay_sleep_release,omitempty"` // the epilogue's release of a pending delay is followed by a 25 ms pause instead of empty Writes
	DebugNil          bool   `json:"debug_nil,omitempty"`           // WithDebugOutput(nil)
	OutSlowUs         int    `json:"out_slow_us,omitempty"`         // every Write of the (buffer) output takes this long
	DebugSlowUs       int    `json:"debug_slow_us,omitempty"`       // every Write of the debug output takes this long
	DelayNever        bool   `json:"delay_never,omitempty"`         // the render delay is never released, not even before Wait
	Notifier          bool   `json:"notifier,omitempty"`            // WithShutdownNotifier
	NoOutput          bool   `json:"no_output,omitempty"`
	AlsoAuto          int    `json:"also_auto,omitempty"`          // manual refresh only: WithAutoRefresh given too, 1 = before, 2 = after WithManualRefresh (manual refresh wins either way)
	UserWGUntilDone   bool   `json:"user_wg_until_done,omitempty"` // ...whose member only ends once the container is over (it polls Progress.Write until ErrDone)
	UserWG            bool   `json:"user_wg,omitempty"`            // WithWaitGroup: Wait also waits for a user wait group released ~1 ms after Wait was called
}

// DecorSpec describes one decorator of a bar (besides the row tag).
type DecorSpec struct {
	Side     int      `json:"side"`  // 0 prepend, 1 append
	Texts    []string `json:"texts"` // text of call k is Texts[k % len]
	W        int      `json:"w,omitempty"`
	C        int      `json:"c,omitempty"`    // decor.D* flags
	Wrap     []string `json:"wrap,omitempty"` // oncomplete onabort meta oncompletemeta onabortmeta ocoa
	Listener bool     `json:"listener,omitempty"`
	Ewma     bool     `json:"ewma,omitempty"`
	SlowUs   int      `json:"slow_us,omitempty"`  // Decor sleeps this long (widens race windows)
	PeerBar  int      `json:"peer_bar,omitempty"` // 1+index of an earlier bar whose Current() this decorator reads each time it is drawn (0 = none)
	ViaAny   bool     `json:"via_any,omitempty"`  // built with decor.Any(fn, <default WC>, <this WC>) instead of the harness's own decorator type
	Disabled bool     `json:"disabled,omitempty"` // switched off with decor.OnCondition(d, false): every wrapper must pass the nil on, the bar does not get it
}

// BarSpec describes one bar; it is created by an "add" step.
type BarSpec struct {
	Total          int64       `json:"total"`
	Priority       *int        `json:"priority,omitempty"`
	Trim           bool        `json:"trim,omitempty"`
	RmOnComplete   bool        `json:"rm,omitempty"`
	NoPop          bool        `json:"nopop,omitempty"`
	QueueAfter     int         `json:"after"` // index of the predecessor bar, -1 = none
	Decors         []DecorSpec `json:"decors,omitempty"`
	Filler         string      `json:"filler,omitempty"` // bar (default) | spinner | spinnerv (frames of different widths) | nop | tag
	ExtRows        int         `json:"ext_rows,omitempty"`
	ExtRev         bool        `json:"ext_rev,omitempty"`
	ExtNoNL        bool        `json:"ext_nonl,omitempty"`         // extender output ends without newline
	OnComplete     bool        `json:"on_complete,omitempty"`      // BarFillerOnComplete("DONE")
	OnAbort        bool        `json:"on_abort,omitempty"`         // BarFillerOnAbort("ABRT")
	FillErrAt      int         `json:"fill_err_at,omitempty"`      // k-th Fill call fails (1-based)
	FillErrRelease bool        `json:"fill_err_release,omitempty"` // the failing Fill call ends a pending render delay before it returns its error
	ExtErrAt       int         `json:"ext_err_at,omitempty"`       // k-th extender call fails
	BarWidth       int         `json:"bar_width,omitempty"`
	NoTag          bool        `json:"no_tag,omitempty"`
	ID             int         `json:"id,omitempty"`       // BarID option (0 = not set)
	Builtins       []string    `json:"builtins,omitempty"` // built-in decorators appended: avgeta avgspeed ewmaeta ewmaspeed pct counters elapsed name spinner
}

// Step is one client operation.
// An "add2" step adds the bars Bar and N from two goroutines at the same time.
// An "add" step with Flag set requests a frame from inside one of its option callbacks (the frame cannot be
// served before Add is through). A "tick" step whose Text is "prio", "uprio" or "uprio-lazy" carries a priority change (Bar, N) that a
// client goroutine issues while that render cycle is in progress.
type Step struct {
	Op   string   `json:"op"`
	Bar  int      `json:"bar,omitempty"`
	N    int64    `json:"n,omitempty"`
	Flag bool     `json:"flag,omitempty"`
	Text string   `json:"text,omitempty"`
	Par  [][]Step `json:"par,omitempty"`
}

// Perturb describes schedule perturbation applied through the hook points.
type Perturb struct {
	Seed   uint64   `json:"seed,omitempty"`
	Level  int      `json:"level,omitempty"`  // 0 none, 1 gosched, 2 short sleeps, 3 longer sleeps
	Points []string `json:"points,omitempty"` // restrict to these points (empty = all)
	// Holds: block arrivals at point A (occurrence KA, 0 = every) until point B
	// has fired KB more times, or HoldMs elapsed.
	Holds []Hold `json:"holds,omitempty"`
}

type Hold struct {
	A      string `json:"a"`
	KA     int    `json:"ka,omitempty"`
	B      string `json:"b"`
	KB     int    `json:"kb,omitempty"`
	HoldMs int    `json:"hold_ms,omitempty"`
}

// Scenario is one generated case (JSON = replay file).
type Scenario struct {
	Cfg       Config    `json:"cfg"`
	Bars      []BarSpec `json:"bars"`
	Steps     []Step    `json:"steps"`
	Epilogue  string    `json:"epilogue"`              // complete | abort | mixed | none (steps end the run themselves)
	OutErrAt  int       `json:"out_err_at,omitempty"`  // k-th output Write fails
	OutShort  bool      `json:"out_short,omitempty"`   // ... as a short write
	SizeErrAt int       `json:"size_err_at,omitempty"` // k-th terminal size query fails (pty)
	Perturb   Perturb   `json:"perturb,omitempty"`
	Repeat    int       `json:"repeat,omitempty"` // C16: run the scenario this many times in a row
	Late      []Step    `json:"late,omitempty"`   // calls issued after Wait has returned
	// CancelAt: cancel the container from inside the library's hook point Point at
	// its K-th occurrence (1-based), i.e. in the middle of whatever the library is
	// doing there; Shutdown=true calls Progress.Shutdown from a new goroutine instead.
	CancelAt *CancelAt `json:"cancel_at,omitempty"`
}

func (s *Scenario) CountSteps() int {
	var n func([]Step) int
	n = func(st []Step) int {
		c := 0
		for _, x := range st {
			c++
			for _, p := range x.Par {
				c += n(p)
			}
		}
		return c
	}
	return n(s.Steps)
}

type CancelAt struct {
	Point    string `json:"point"`
	K        int    `json:"k"`
	Shutdown bool   `json:"shutdown,omitempty"`
}
