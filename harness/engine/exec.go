package engine

import (
	"bytes"
	"context"
	"errors"
	"fmt"
	"hash/fnv"
	"io"
	"math"
	"runtime"
	"strings"
	"sync"
	"sync/atomic"
	"time"

	mpb "github.com/vbauerster/mpb/v8"
	"github.com/vbauerster/mpb/v8/cwriter"
	"github.com/vbauerster/mpb/v8/decor"
	"verif/harness/vpty"
)

// Chunk is one Write call on the output (= one frame for buffer outputs).
type Chunk struct {
	Seq  int64  `json:"seq"`
	Data []byte `json:"data"`
}

type Event struct {
	Seq   int64
	Point string
	N     int
	Bar   int // spec index, -1 unknown / not a bar event
	ptr   interface{}
}

// PollRec: what one of two goroutines polling a getter of the same bar at the
// same time saw, in its own order.
type PollRec struct {
	Step   int
	Bar    int
	Getter string // "completed" | "aborted"
	Vals   []bool
}

type GetRec struct {
	Step      int   `json:"step"`
	Bar       int   `json:"bar"`
	Cur       int64 `json:"cur"`
	Completed bool  `json:"completed"`
	Aborted   bool  `json:"aborted"`
	Running   bool  `json:"running"`
	Seq       int64 `json:"seq"`
}

type WriteRec struct {
	Text   string
	N      int
	Err    error
	InvSeq int64
	RetSeq int64
}

type AddRec struct {
	Bar    int
	Err    error
	InvSeq int64
	RetSeq int64
}

type ProbeRec struct {
	Cycle int64
	Bar   int
	Decor int
	Str   string
	W     int
	Seq   int64
	// state handed to the decorator and what its innermost part formatted
	Completed   bool
	Aborted     bool
	InnerCalled bool   // the innermost decorator was reached (no wrapper substituted a message)
	Text        string // text the innermost decorator formatted (when reached)
}

// CallRec is one bar operation as the client saw it: invocation and return in
// event-sequence numbers (a total order that does not depend on the clock).
type CallRec struct {
	Client int    `json:"client"`
	Bar    int    `json:"bar"`
	Op     string `json:"op"` // incr setcur settotal etc abort current completed aborted
	N      int64  `json:"n"`
	Flag   bool   `json:"flag"`
	Inv    int64  `json:"inv"`
	Ret    int64  `json:"ret"`
	OutN   int64  `json:"out_n"` // getter results
	OutB   bool   `json:"out_b"`
}

type Hang struct {
	Kind       string // deadlock | livelock | stuck
	Where      []string
	AtStep     string
	Goroutines int
}

// Trace is everything observed during one run.
type Trace struct {
	Chunks             []Chunk
	Events             []Event
	Gets               []GetRec
	Writes             []WriteRec
	Adds               []AddRec
	Probes             []ProbeRec
	Shutdowns          map[[2]int]int // (bar, decor) -> OnShutdown calls
	ShutdownsAtWait    map[[2]int]int
	EwmaSamples        map[[2]int][]EwmaSample
	Notified           [][]int // bar indices of every value received from the notifier
	Debug              string
	WaitSeq            int64 // event seq when Wait returned (0 = never)
	ChunksAtWait       int   // number of chunks when Wait returned
	LateChunks         int   // chunks that arrived after Wait returned (after settling)
	Final              []GetRec
	Hang               *Hang
	Inconclusive       string
	Cycles             int64
	CancelSeq          int64
	CancelEffSeq       int64 // context cancel: sequence number right after the cancel call returned (0 for Shutdown: see the serve.done event)
	CyclesAtCancel     int64
	PtyStream          []byte
	DebugAtWait        string    // what the debug output held at the moment Wait returned
	RunningAfterCancel []int     // bars whose IsRunning() was still true right after the cancel / Shutdown call returned
	Polls              []PollRec // concurrent getter polls ("get" steps with Flag)
	Added              []bool
	StepSeq            []int64 // event seq at the end of each top-level step
	OutputErrs         int
	FillCalls          map[int]int
	Calls              []CallRec
	TagCalls           map[int]int // renders per bar (the row tag decorator is called once per render)
	Leaks              []G
	LeakUndecided      bool
	Detached           int64
	BarWaitStuck       []int // bars whose Bar.Wait did not return after Progress.Wait had
	LateFrom           int   // index into Adds/Writes/Gets bookkeeping: see LateAdds etc.
	LateAdds           []AddRec
	LateWrites         []WriteRec
	FinalLate          []GetRec    // getters once more after the late calls
	LateProxies        int         // ProxyReader/ProxyWriter calls made after Wait returned
	LateProxyNonNil    int         // ... that returned a non-nil proxy
	LateChunksAfter    int         // output writes caused by late calls
	UserWGDoneSeq      int64       // event seq at which the user wait group was released (WithWaitGroup)
	IDs                map[int]int // Bar.ID() after Wait
	AddOrder           []int       // bars in the order their Add returned successfully
}

// StepSeqLast is the event sequence number at the end of the last program step
// (everything later belongs to the epilogue).
func (t *Trace) StepSeqLast() int64 {
	if len(t.StepSeq) == 0 {
		return 0
	}
	return t.StepSeq[len(t.StepSeq)-1]
}

type EwmaSample struct {
	N   int64
	Dur time.Duration
}

// Options of a run.
type Options struct {
	StallMs    int  // no-activity time before goroutine states are examined (default 1000)
	HardMs     int  // give up (inconclusive) after this long (default 30000)
	LeakCheck  bool // after Wait: look for leftover library goroutines
	LeakStable time.Duration
}

var runMu sync.Mutex

type runner struct {
	cancelEff        atomic.Int64               // see Trace.CancelEffSeq
	wcStyles         sync.Map                   // (W, C) -> []decor.WC shared by all via_any decorators with these settings
	midRender        atomic.Pointer[func(bool)] // armed by a tick step that carries a priority change
	sc               *Scenario
	opt              Options
	tr               *Trace
	seq              atomic.Int64
	activity         atomic.Int64
	mu               sync.Mutex
	p                *mpb.Progress
	ctx              context.Context
	cancel           context.CancelFunc
	manual           chan interface{}
	rreq             chan<- time.Time
	delay            chan struct{}
	delayReleased    bool
	delayMu          sync.Mutex // delayReleased (the client and, with fill_err_release, a filler)
	notifier         chan interface{}
	bars             []*mpb.Bar
	barsMu           sync.RWMutex
	ptr2idx          sync.Map
	rendEnd          atomic.Int64
	endSig           chan struct{}
	serveDone        chan struct{}
	serveDoneOnce    sync.Once
	cycle            atomic.Int64
	rec              *recorder
	pty              *vpty.Pty
	cancelled        atomic.Bool
	abort            chan struct{}
	abortOnce        sync.Once
	frameCap         int64
	curStep          atomic.Value // string
	pointCnt         sync.Map     // point -> *atomic.Int64
	debug            lockedBuf
	sizeQ            atomic.Int64
	stepsDone        atomic.Bool
	framesAfterSteps atomic.Int64
	waitStarted      atomic.Bool
	late             atomic.Bool
	pReady           atomic.Bool
	uwg              *sync.WaitGroup
}

type lockedBuf struct {
	mu     sync.Mutex
	b      bytes.Buffer
	slowUs int // every Write takes this long (a slow log sink)
}

func (l *lockedBuf) Write(p []byte) (int, error) {
	if l.slowUs > 0 {
		time.Sleep(time.Duration(l.slowUs) * time.Microsecond)
	}
	l.mu.Lock()
	defer l.mu.Unlock()
	return l.b.Write(p)
}
func (l *lockedBuf) String() string {
	l.mu.Lock()
	defer l.mu.Unlock()
	return l.b.String()
}

// recorder is the output writer: one chunk per Write call, optional fault.
type recorder struct {
	r      *runner
	mu     sync.Mutex
	chunks []Chunk
	calls  int
}

var ErrInjectedOutput = errors.New("verif: injected output error #OUT#")

func (w *recorder) Write(p []byte) (int, error) {
	r := w.r
	if us := r.sc.Cfg.OutSlowUs; us > 0 {
		time.Sleep(time.Duration(us) * time.Microsecond) // a slow output (pipe, remote terminal)
	}
	w.mu.Lock()
	w.calls++
	k := w.calls
	fail := r.sc.OutErrAt > 0 && k == r.sc.OutErrAt
	data := append([]byte(nil), p...)
	n := len(p)
	if fail && r.sc.OutShort {
		n = len(p) / 2
		data = data[:n]
	} else if fail {
		n = 0
		data = nil
	}
	if int64(len(w.chunks)) < r.frameCap+16 {
		w.chunks = append(w.chunks, Chunk{Seq: r.seq.Add(1), Data: data})
	}
	nchunks := int64(len(w.chunks))
	w.mu.Unlock()
	r.activity.Add(1)
	if r.stepsDone.Load() {
		r.framesAfterSteps.Add(1)
	}
	if nchunks > r.frameCap {
		r.livelock()
	}
	if fail {
		r.mu.Lock()
		r.tr.OutputErrs++
		r.mu.Unlock()
		return n, ErrInjectedOutput
	}
	return n, nil
}

func (r *runner) livelock() {
	// keep what is needed to understand a runaway render loop: where every
	// goroutine is, how many cycles ran, and the last chunks
	gs := relevant(Snapshot())
	r.abortOnce.Do(func() {
		st, _ := r.curStep.Load().(string)
		where := Summary(gs)
		where = append(where, fmt.Sprintf("cycles=%d rendEnd=%d framesAfterSteps=%d cap=%d", r.cycle.Load(), r.rendEnd.Load(), r.framesAfterSteps.Load(), r.frameCap))
		if r.rec != nil {
			// the caller holds no recorder lock here
			r.rec.mu.Lock()
			n := len(r.rec.chunks)
			for i := n - 3; i < n; i++ {
				if i >= 0 {
					d := r.rec.chunks[i].Data
					if len(d) > 160 {
						d = d[:160]
					}
					where = append(where, fmt.Sprintf("chunk[%d]=%q", i, d))
				}
			}
			r.rec.mu.Unlock()
		}
		r.mu.Lock()
		r.tr.Hang = &Hang{Kind: "livelock", Where: where, AtStep: st, Goroutines: len(gs)}
		r.mu.Unlock()
		close(r.abort)
		r.cancel()
	})
}

func (r *runner) hang(kind string, gs []G) {
	r.abortOnce.Do(func() {
		st, _ := r.curStep.Load().(string)
		r.mu.Lock()
		r.tr.Hang = &Hang{Kind: kind, Where: Summary(gs), AtStep: st, Goroutines: len(gs)}
		r.mu.Unlock()
		close(r.abort)
		r.cancel() // try to release whatever can be released
	})
}

// InconclusiveHook, when set, is told about every run that ends inconclusive.
var InconclusiveHook func(sc *Scenario, why string)

func (r *runner) inconclusive(why string) {
	r.abortOnce.Do(func() {
		if InconclusiveHook != nil {
			InconclusiveHook(r.sc, why)
		}
		r.mu.Lock()
		r.tr.Inconclusive = why
		r.mu.Unlock()
		close(r.abort)
		r.cancel()
	})
}

func (r *runner) event(point string, n int, obj interface{}) int64 {
	s := r.seq.Add(1)
	r.activity.Add(1)
	r.mu.Lock()
	if len(r.tr.Events) < 400000 {
		r.tr.Events = append(r.tr.Events, Event{Seq: s, Point: point, N: n, Bar: -1, ptr: obj})
	}
	r.mu.Unlock()
	return s
}

func (r *runner) count(point string) *atomic.Int64 {
	if v, ok := r.pointCnt.Load(point); ok {
		return v.(*atomic.Int64)
	}
	v, _ := r.pointCnt.LoadOrStore(point, new(atomic.Int64))
	return v.(*atomic.Int64)
}

func (r *runner) hook(point string, n int, obj interface{}) {
	r.event(point, n, obj)
	occ := r.count(point).Add(1)
	switch point {
	case "render.begin":
		r.cycle.Add(1)
	case "render.end":
		if r.pty != nil {
			_, _ = r.pty.Slave.Write([]byte(vpty.Marker))
		}
		r.rendEnd.Add(1)
		select {
		case r.endSig <- struct{}{}:
		default:
		}
	case "serve.done":
		r.serveDoneOnce.Do(func() { close(r.serveDone) })
	}
	if ca := r.sc.CancelAt; ca != nil && ca.Point == point && int64(ca.K) == occ && r.pReady.Load() {
		s := r.event("client.cancel", 2, nil)
		r.mu.Lock()
		if r.tr.CancelSeq == 0 {
			r.tr.CancelSeq = s
			r.tr.CyclesAtCancel = r.cycle.Load()
		}
		r.mu.Unlock()
		r.cancelled.Store(true)
		if ca.Shutdown {
			go r.p.Shutdown()
		} else {
			r.cancel()
			r.cancelEff.CompareAndSwap(0, r.seq.Add(1))
		}
	}
	r.perturb(point, occ)
}

func (r *runner) perturb(point string, occ int64) {
	pt := &r.sc.Perturb
	for i := range pt.Holds {
		h := &pt.Holds[i]
		if h.A != point || (h.KA != 0 && int64(h.KA) != occ) {
			continue
		}
		target := r.count(h.B).Load() + int64(max(h.KB, 1))
		ms := h.HoldMs
		if ms <= 0 {
			ms = 20
		}
		deadline := time.Now().Add(time.Duration(ms) * time.Millisecond)
		for r.count(h.B).Load() < target && time.Now().Before(deadline) {
			select {
			case <-r.abort:
				return
			default:
			}
			time.Sleep(50 * time.Microsecond)
		}
	}
	if pt.Level == 0 {
		return
	}
	if len(pt.Points) > 0 {
		ok := false
		for _, p := range pt.Points {
			if p == point {
				ok = true
			}
		}
		if !ok {
			return
		}
	}
	h := fnv.New64a()
	fmt.Fprintf(h, "%d/%s/%d", pt.Seed, point, occ)
	v := h.Sum64()
	switch pt.Level {
	case 1:
		if v&1 == 0 {
			runtime.Gosched()
		}
	case 2:
		switch v % 6 {
		case 0:
			runtime.Gosched()
		case 1:
			time.Sleep(10 * time.Microsecond)
		case 2:
			time.Sleep(60 * time.Microsecond)
		case 3:
			time.Sleep(250 * time.Microsecond)
		}
	default:
		switch v % 6 {
		case 0:
			runtime.Gosched()
		case 1:
			time.Sleep(100 * time.Microsecond)
		case 2:
			time.Sleep(1 * time.Millisecond)
		case 3:
			time.Sleep(3 * time.Millisecond)
		}
	}
}

// ---- decorators -------------------------------------------------------

// tagDecor prints "b<idx>:<cur>/<tot>:<C|A|r>|" from the Statistics it is
// given: what the library itself shows for the bar, frame by frame.
func (r *runner) tagDecor(idx int) decor.Decorator {
	return decor.Any(func(s decor.Statistics) string {
		r.mu.Lock()
		r.tr.TagCalls[idx]++
		r.mu.Unlock()
		fl := "r"
		if s.Completed && s.Aborted {
			fl = "X"
		} else if s.Completed {
			fl = "C"
		} else if s.Aborted {
			fl = "A"
		}
		return fmt.Sprintf("b%d:%d/%d:%s:%d|", idx, s.Current, s.Total, fl, s.Refill)
	})
}

// innerDecor is the innermost decorator of a DecorSpec.
type innerDecor struct {
	decor.WC
	r     *runner
	bar   int
	di    int
	spec  *DecorSpec
	calls atomic.Int64
}

func (d *innerDecor) Decor(s decor.Statistics) (string, int) {
	return d.Format(d.nextText())
}

func (d *innerDecor) nextText() string {
	if d.spec.PeerBar > 0 {
		// a "summary" decorator: looks at another (earlier) bar of the container while it is drawn
		if pb := d.r.bar(d.spec.PeerBar - 1); pb != nil && d.spec.PeerBar-1 != d.bar {
			_ = pb.Current()
		}
	}
	k := d.calls.Add(1) - 1
	txt := ""
	if n := len(d.spec.Texts); n > 0 {
		txt = d.spec.Texts[int(k)%n]
	}
	if d.spec.SlowUs > 0 {
		time.Sleep(time.Duration(d.spec.SlowUs) * time.Microsecond)
	}
	return txt
}

type listenerDecor struct{ *innerDecor }

func (d listenerDecor) OnShutdown() {
	// a listener may look at its own bar (what it was told is that the bar is
	// shutting down): the getters must answer
	if b := d.r.bar(d.bar); b != nil {
		_ = b.Current()
		_ = b.Aborted()
		_ = b.ID()
	}
	d.r.mu.Lock()
	d.r.tr.Shutdowns[[2]int{d.bar, d.di}]++
	d.r.mu.Unlock()
	d.r.event("client.onshutdown", d.di, nil)
}

type ewmaDecor struct{ *innerDecor }

func (d ewmaDecor) EwmaUpdate(n int64, dur time.Duration) {
	d.r.mu.Lock()
	k := [2]int{d.bar, d.di}
	d.r.tr.EwmaSamples[k] = append(d.r.tr.EwmaSamples[k], EwmaSample{n, dur})
	d.r.mu.Unlock()
}

type listenerEwmaDecor struct {
	listenerDecor
}

func (d listenerEwmaDecor) EwmaUpdate(n int64, dur time.Duration) {
	ewmaDecor{d.innerDecor}.EwmaUpdate(n, dur)
}

// probe is the outermost wrapper: records what the decorator returned.
type probe struct {
	decor.Decorator
	r    *runner
	bar  int
	di   int
	spec *DecorSpec
	in   *innerDecor
}

func (p probe) Unwrap() decor.Decorator { return p.Decorator }

func (p probe) Decor(s decor.Statistics) (string, int) {
	cyc := p.r.cycle.Load()
	n0 := p.in.calls.Load()
	str, w := p.Decorator.Decor(s)
	rec := ProbeRec{Cycle: cyc, Bar: p.bar, Decor: p.di, Str: str, W: w, Seq: p.r.seq.Add(1), Completed: s.Completed, Aborted: s.Aborted}
	if p.in.calls.Load() > n0 {
		rec.InnerCalled = true
		if n := len(p.spec.Texts); n > 0 {
			rec.Text = p.spec.Texts[int(n0)%n]
		}
	}
	p.r.mu.Lock()
	if len(p.r.tr.Probes) < 200000 {
		p.r.tr.Probes = append(p.r.tr.Probes, rec)
	}
	p.r.mu.Unlock()
	return str, w
}

func colour(s string) string { return "\x1b[36m" + s + "\x1b[0m" }

func (r *runner) sharedWC(w, c int) []decor.WC {
	v, _ := r.wcStyles.LoadOrStore([2]int{w, c}, []decor.WC{{W: 1}, {W: w, C: c}})
	return v.([]decor.WC)
}

func (r *runner) buildDecor(bar, di int, spec *DecorSpec) decor.Decorator {
	wc := decor.WC{W: spec.W, C: spec.C}
	in := &innerDecor{WC: wc.Init(), r: r, bar: bar, di: di, spec: spec}
	var d decor.Decorator
	if spec.Disabled {
		// conditionally disabled: nil from here on, whatever wraps it
		d = decor.OnCondition(in, false)
		for _, w := range spec.Wrap {
			switch w {
			case "oncomplete", "oncomplete-e":
				d = decor.OnComplete(d, "done")
			case "onabort", "onabort-e":
				d = decor.OnAbort(d, "abrt")
			case "meta":
				d = decor.Meta(d, colour)
			case "oncompletemeta":
				d = decor.OnCompleteMeta(d, colour)
			case "onabortmeta":
				d = decor.OnAbortMeta(d, colour)
			case "ocoa", "ocoa-e":
				d = decor.OnCompleteOrOnAbort(d, "fin")
			case "ocmoam":
				d = decor.OnCompleteMetaOrOnAbortMeta(d, colour)
			}
		}
		return d // nil when the library is right; a non-nil wrapper around nothing goes to the bar as it is
	}
	switch {
	case spec.Listener && spec.Ewma:
		d = listenerEwmaDecor{listenerDecor{in}}
	case spec.Listener:
		d = listenerDecor{in}
	case spec.Ewma:
		d = ewmaDecor{in}
	case spec.ViaAny:
		// the library's own constructor, called the way helpers do: a default
		// configuration first, the caller's last (the last one given counts). The
		// configuration slice is shared by every decorator of the run that has the
		// same settings (a package-level "style" in a real program): read-only for
		// everybody, the library included
		d = decor.Any(func(decor.Statistics) string { return in.nextText() }, r.sharedWC(spec.W, spec.C)...)
	default:
		d = in
	}
	for _, w := range spec.Wrap {
		switch w {
		case "oncomplete":
			d = decor.OnComplete(d, "done")
		case "onabort":
			d = decor.OnAbort(d, "abrt")
		case "meta":
			d = decor.Meta(d, colour)
		case "oncompletemeta":
			d = decor.OnCompleteMeta(d, colour)
		case "onabortmeta":
			d = decor.OnAbortMeta(d, colour)
		case "ocoa":
			d = decor.OnCompleteOrOnAbort(d, "fin")
		case "ocmoam":
			d = decor.OnCompleteMetaOrOnAbortMeta(d, colour)
		case "cond":
			d = decor.OnCondition(d, true)
		case "pred":
			d = decor.OnPredicate(d, func() bool { return true })
		case "condelse":
			d = decor.Conditional(false, decor.Name("never"), d)
		case "oncomplete-e": // empty replacement messages ("clear on complete")
			d = decor.OnComplete(d, "")
		case "onabort-e":
			d = decor.OnAbort(d, "")
		case "ocoa-e":
			d = decor.OnCompleteOrOnAbort(d, "")
		}
	}
	return probe{Decorator: d, r: r, bar: bar, di: di, spec: spec, in: in}
}

var ErrInjectedFill = errors.New("verif: injected filler error #FILL#")
var ErrInjectedExt = errors.New("verif: injected extender error #EXT#")
var ErrInjectedSize = errors.New("verif: injected terminal size error #SIZE#")

func (r *runner) buildBarOptions(idx int) (mpb.BarFiller, []mpb.BarOption) {
	spec := &r.sc.Bars[idx]
	var base mpb.BarFiller
	switch spec.Filler {
	case "spinner":
		base = mpb.SpinnerStyle().Build()
	case "spinnerv":
		// custom frames of different display widths
		base = mpb.SpinnerStyle(".", "..", "世界", "o", "-->", "").Build()
	case "bartip":
		// a bar whose tip is three cells wide
		base = mpb.BarStyle().Tip("==>").Build()
	case "nop":
		base = mpb.NopStyle().Build()
	case "tag":
		base = mpb.BarFillerFunc(func(w io.Writer, s decor.Statistics) error {
			_, err := fmt.Fprintf(w, "{%d}", idx)
			return err
		})
	default:
		base = mpb.BarStyle().Build()
	}
	var fillCalls atomic.Int64
	filler := mpb.BarFillerFunc(func(w io.Writer, s decor.Statistics) error {
		k := fillCalls.Add(1)
		if f := r.midRender.Load(); f != nil {
			(*f)(true)
		}
		r.mu.Lock()
		r.tr.FillCalls[idx] = int(k)
		r.mu.Unlock()
		if spec.FillErrAt > 0 && int(k) == spec.FillErrAt {
			r.event("client.fillerr", idx, nil)
			if spec.FillErrRelease {
				r.delayMu.Lock()
				if r.delay != nil && !r.delayReleased {
					r.delayReleased = true
					r.event("client.release", 0, nil)
					close(r.delay)
				}
				r.delayMu.Unlock()
			}
			return fmt.Errorf("%w bar=%d", ErrInjectedFill, idx)
		}
		return base.Fill(w, s)
	})
	var opts []mpb.BarOption
	var pre, app []decor.Decorator
	if !spec.NoTag {
		pre = append(pre, r.tagDecor(idx))
	}
	for di := range spec.Decors {
		d := r.buildDecor(idx, di, &spec.Decors[di])
		if spec.Decors[di].Side == 0 {
			pre = append(pre, d)
		} else {
			app = append(app, d)
		}
	}
	for _, b := range spec.Builtins {
		switch b {
		case "avgeta":
			app = append(app, decor.AverageETA(decor.ET_STYLE_GO))
		case "avgspeed":
			app = append(app, decor.AverageSpeed(decor.SizeB1024(0), "% .1f"))
		case "ewmaeta":
			app = append(app, decor.EwmaETA(decor.ET_STYLE_MMSS, 30))
		case "ewmaspeed":
			app = append(app, decor.EwmaSpeed(decor.SizeB1000(0), "% .1f", 30))
		case "pct":
			app = append(app, decor.Percentage(decor.WCSyncSpace))
		case "counters":
			app = append(app, decor.CountersNoUnit("%d / %d"))
		case "elapsed":
			app = append(app, decor.OnComplete(decor.Elapsed(decor.ET_STYLE_GO), "ok"))
		case "name":
			pre = append(pre, decor.Name("n"))
		case "spinner":
			pre = append(pre, decor.Spinner(nil))
		}
	}
	opts = append(opts, mpb.PrependDecorators(pre...), mpb.AppendDecorators(app...))
	if spec.Priority != nil {
		opts = append(opts, mpb.BarPriority(*spec.Priority))
	}
	// boolean options go through the library's "optional" helpers, so that both
	// outcomes of those are exercised
	opts = append(opts,
		mpb.BarOptional(mpb.BarFillerTrim(), spec.Trim),
		mpb.BarOptOn(mpb.BarRemoveOnComplete(), func() bool { return spec.RmOnComplete }),
		mpb.BarFuncOptional(func() mpb.BarOption { return mpb.BarNoPop() }, spec.NoPop),
		mpb.BarFuncOptOn(func() mpb.BarOption { return mpb.BarWidth(spec.BarWidth) }, func() bool { return spec.BarWidth > 0 }),
	)
	if spec.ID != 0 {
		opts = append(opts, mpb.BarID(spec.ID))
	}
	if spec.OnComplete {
		opts = append(opts, mpb.BarFillerOnComplete("DONE"))
	}
	if spec.OnAbort {
		opts = append(opts, mpb.BarFillerOnAbort("ABRT"))
	}
	if spec.QueueAfter >= 0 {
		r.barsMu.RLock()
		var pred *mpb.Bar
		if spec.QueueAfter < len(r.bars) {
			pred = r.bars[spec.QueueAfter]
		}
		r.barsMu.RUnlock()
		if pred != nil {
			opts = append(opts, mpb.BarQueueAfter(pred))
		}
	}
	if spec.ExtRows > 0 || spec.ExtErrAt > 0 {
		var extCalls atomic.Int64
		ext := mpb.BarFillerFunc(func(w io.Writer, s decor.Statistics) error {
			k := extCalls.Add(1)
			if spec.ExtErrAt > 0 && int(k) == spec.ExtErrAt {
				r.event("client.exterr", idx, nil)
				return fmt.Errorf("%w bar=%d", ErrInjectedExt, idx)
			}
			for j := 0; j < spec.ExtRows; j++ {
				if spec.ExtNoNL && j == spec.ExtRows-1 {
					fmt.Fprintf(w, "e%d.%d", idx, j)
				} else {
					fmt.Fprintf(w, "e%d.%d\n", idx, j)
				}
			}
			return nil
		})
		opts = append(opts, mpb.BarExtender(ext, spec.ExtRev))
	}
	return filler, opts
}

// ---- run ---------------------------------------------------------------

// Run executes the scenario once and returns the trace.
func Run(sc *Scenario, opt Options) *Trace {
	runMu.Lock()
	defer runMu.Unlock()
	if opt.StallMs == 0 {
		opt.StallMs = 1000
	}
	if opt.HardMs == 0 {
		opt.HardMs = 30000
	}
	r := &runner{sc: sc, opt: opt, endSig: make(chan struct{}, 1), serveDone: make(chan struct{}), abort: make(chan struct{})}
	r.tr = &Trace{Shutdowns: map[[2]int]int{}, EwmaSamples: map[[2]int][]EwmaSample{}, FillCalls: map[int]int{}, TagCalls: map[int]int{}, IDs: map[int]int{}, Added: make([]bool, len(sc.Bars))}
	r.bars = make([]*mpb.Bar, len(sc.Bars))
	r.frameCap = int64(64 + 8*(len(sc.Bars)+sc.CountSteps()))
	if sc.Cfg.Refresh == "autort" {
		r.frameCap += 4000 // a real ticker draws frames for as long as the program runs
	}
	if sc.Cfg.Refresh == "autoinj" {
		// the harness keeps offering ticks (one per 100 us) until Wait has returned;
		// a starved waiter must not look like a runaway render loop, which draws
		// tens of thousands of frames per second
		r.frameCap += 3000
	}
	r.curStep.Store("setup")
	mpb.SetVerifHook(r.hook)
	decor.SetVerifHook(func(point string, n int) { r.hook(point, n, nil) })
	cwriter.SetVerifTermSize(func(fd int) (int, int, error, bool) {
		k := r.sizeQ.Add(1)
		if sc.SizeErrAt > 0 && int(k) == sc.SizeErrAt {
			r.event("client.sizeerr", int(k), nil)
			return -1, -1, ErrInjectedSize, true
		}
		return 0, 0, nil, false
	})
	defer func() {
		mpb.SetVerifHook(nil)
		decor.SetVerifHook(nil)
		cwriter.SetVerifTermSize(nil)
	}()

	r.ctx, r.cancel = context.WithCancel(context.Background())
	defer r.cancel()
	done := make(chan struct{})
	go func() {
		defer close(done)
		r.scenario()
	}()
	r.watchdog(done)
	if r.pty != nil {
		if b, err := r.pty.SyncRaw(); err == nil {
			r.tr.PtyStream = b
		}
		r.pty.Close()
	}
	// resolve bar pointers of hook events
	r.mu.Lock()
	for i := range r.tr.Events {
		if p := r.tr.Events[i].ptr; p != nil {
			if v, ok := r.ptr2idx.Load(p); ok {
				r.tr.Events[i].Bar = v.(int)
			}
			r.tr.Events[i].ptr = nil
		}
	}
	if r.rec != nil {
		r.rec.mu.Lock()
		r.tr.Chunks = append([]Chunk(nil), r.rec.chunks...)
		r.rec.mu.Unlock()
	}
	r.tr.Debug = r.debug.String()
	r.tr.CancelEffSeq = r.cancelEff.Load()
	r.tr.Cycles = r.cycle.Load()
	// hand out a copy: goroutines of a hung or abandoned run may still be inside
	// the hook and go on recording into r.tr
	tr := r.tr.clone()
	r.mu.Unlock()
	return tr
}

func (t *Trace) clone() *Trace {
	c := *t
	c.Chunks = append([]Chunk(nil), t.Chunks...)
	c.Events = append([]Event(nil), t.Events...)
	c.Gets = append([]GetRec(nil), t.Gets...)
	c.Polls = append([]PollRec(nil), t.Polls...)
	c.Writes = append([]WriteRec(nil), t.Writes...)
	c.Adds = append([]AddRec(nil), t.Adds...)
	c.Probes = append([]ProbeRec(nil), t.Probes...)
	c.Calls = append([]CallRec(nil), t.Calls...)
	c.Final = append([]GetRec(nil), t.Final...)
	c.FinalLate = append([]GetRec(nil), t.FinalLate...)
	c.LateAdds = append([]AddRec(nil), t.LateAdds...)
	c.LateWrites = append([]WriteRec(nil), t.LateWrites...)
	c.Added = append([]bool(nil), t.Added...)
	c.StepSeq = append([]int64(nil), t.StepSeq...)
	c.BarWaitStuck = append([]int(nil), t.BarWaitStuck...)
	c.Leaks = append([]G(nil), t.Leaks...)
	c.Notified = append([][]int(nil), t.Notified...)
	c.PtyStream = append([]byte(nil), t.PtyStream...)
	if t.PtyStream == nil {
		c.PtyStream = nil
	}
	c.Shutdowns = map[[2]int]int{}
	for k, v := range t.Shutdowns {
		c.Shutdowns[k] = v
	}
	if t.ShutdownsAtWait != nil {
		c.ShutdownsAtWait = map[[2]int]int{}
		for k, v := range t.ShutdownsAtWait {
			c.ShutdownsAtWait[k] = v
		}
	}
	c.EwmaSamples = map[[2]int][]EwmaSample{}
	for k, v := range t.EwmaSamples {
		c.EwmaSamples[k] = append([]EwmaSample(nil), v...)
	}
	c.AddOrder = append([]int(nil), t.AddOrder...)
	c.IDs = map[int]int{}
	for k, v := range t.IDs {
		c.IDs[k] = v
	}
	c.FillCalls = map[int]int{}
	for k, v := range t.FillCalls {
		c.FillCalls[k] = v
	}
	c.TagCalls = map[int]int{}
	for k, v := range t.TagCalls {
		c.TagCalls[k] = v
	}
	if t.Hang != nil {
		h := *t.Hang
		c.Hang = &h
	}
	return &c
}

func (r *runner) watchdog(done <-chan struct{}) {
	start := time.Now()
	last := r.activity.Load()
	lastChange := time.Now()
	var lastSig string
	var sigAt time.Time
	tk := time.NewTicker(25 * time.Millisecond)
	defer tk.Stop()
	for {
		select {
		case <-done:
			return
		case <-r.abort:
			// verdict reached: give the scenario goroutine a moment to unwind, then leave it
			select {
			case <-done:
			case <-time.After(300 * time.Millisecond):
			}
			return
		case <-tk.C:
		}
		if a := r.activity.Load(); a != last {
			last, lastChange, lastSig = a, time.Now(), ""
			if time.Since(start) > time.Duration(r.opt.HardMs)*time.Millisecond {
				r.inconclusive("still active after the hard limit")
			}
			continue
		}
		if time.Since(lastChange) < time.Duration(r.opt.StallMs)*time.Millisecond {
			continue
		}
		gs := relevant(Snapshot())
		if allBlocked(gs) {
			sig := signature(gs)
			if sig == lastSig && time.Since(sigAt) >= 250*time.Millisecond && r.activity.Load() == last {
				r.hang("deadlock", gs)
				continue
			}
			if sig != lastSig {
				lastSig, sigAt = sig, time.Now()
			}
		} else {
			lastSig = ""
		}
		if time.Since(start) > time.Duration(r.opt.HardMs)*time.Millisecond {
			r.inconclusive("no verdict within the hard limit")
		}
	}
}

func (r *runner) aborted() bool {
	select {
	case <-r.abort:
		return true
	default:
		return false
	}
}

func (r *runner) bar(i int) *mpb.Bar {
	r.barsMu.RLock()
	defer r.barsMu.RUnlock()
	if i < 0 || i >= len(r.bars) {
		return nil
	}
	return r.bars[i]
}

func (r *runner) scenario() {
	sc := r.sc
	cfg := &sc.Cfg
	var opts []mpb.ContainerOption
	// output
	if cfg.PtyRows > 0 {
		pt, err := vpty.Open(cfg.PtyRows, cfg.PtyCols)
		if err != nil {
			r.inconclusive("no pty: " + err.Error())
			return
		}
		r.pty = pt
		opts = append(opts, mpb.WithOutput(pt.Slave))
	} else {
		r.rec = &recorder{r: r}
		opts = append(opts, mpb.WithOutput(r.rec))
	}
	r.debug.slowUs = cfg.DebugSlowUs
	if cfg.DebugNil {
		opts = append(opts, mpb.WithDebugOutput(nil)) // "no debug output wanted"
	} else {
		opts = append(opts, mpb.WithDebugOutput(&r.debug))
	}
	switch cfg.Refresh {
	case "manual":
		r.manual = make(chan interface{})
		if cfg.AlsoAuto == 1 {
			opts = append(opts, mpb.WithAutoRefresh())
		}
		opts = append(opts, mpb.WithManualRefresh(r.manual))
		if cfg.AlsoAuto == 2 {
			opts = append(opts, mpb.WithAutoRefresh())
		}
	case "autoinj":
		opts = append(opts, mpb.WithAutoRefresh(), mpb.WithRefreshRate(24*time.Hour), mpb.VerifRenderReq(&r.rreq))
	case "autort":
		rate := cfg.RateMs
		if rate <= 0 {
			rate = 1
		}
		opts = append(opts, mpb.WithAutoRefresh(), mpb.WithRefreshRate(time.Duration(rate)*time.Millisecond))
	}
	if cfg.QueueLen >= 0 {
		opts = append(opts, mpb.WithQueueLen(cfg.QueueLen))
	}
	if cfg.Width > 0 {
		opts = append(opts, mpb.WithWidth(cfg.Width))
	}
	opts = append(opts, mpb.ContainerOptional(mpb.PopCompletedMode(), cfg.Pop))
	if cfg.UserWG {
		r.uwg = new(sync.WaitGroup)
		r.uwg.Add(1)
		opts = append(opts, mpb.ContainerOptOn(mpb.WithWaitGroup(r.uwg), func() bool { return true }))
	}
	if cfg.Delay {
		r.delay = make(chan struct{})
		opts = append(opts, mpb.WithRenderDelay(r.delay))
	}
	if cfg.Notifier {
		r.notifier = make(chan interface{}, 8)
		opts = append(opts, mpb.WithShutdownNotifier(r.notifier))
	}
	r.p = mpb.NewWithContext(r.ctx, opts...)
	r.pReady.Store(true)

	for i := range sc.Steps {
		if r.aborted() {
			return
		}
		r.runStep(&sc.Steps[i], i, 0)
		r.mu.Lock()
		r.tr.StepSeq = append(r.tr.StepSeq, r.seq.Load())
		r.mu.Unlock()
	}
	if r.aborted() {
		return
	}
	r.curStep.Store("epilogue")
	if !r.cancelled.Load() {
		r.finishBars()
	}
	r.delayMu.Lock()
	pendingDelay := !r.delayReleased
	if cfg.Delay && !cfg.DelayNever && pendingDelay && !r.cancelled.Load() {
		r.delayReleased = true
	}
	r.delayMu.Unlock()
	if cfg.Delay && !cfg.DelayNever && pendingDelay && !r.cancelled.Load() {
		// (a cancelled container must stop even if its render delay never ends)
		r.event("client.release", 1, nil)
		close(r.delay)
		// (as in the "release" step: make sure the container has taken the release
		// before Wait is called, otherwise "rendering has started" is a coin flip)
		if cfg.DelaySleepRelease {
			// ...without touching the container: its goroutine is idle and has nothing
			// else to pick
			select {
			case <-time.After(25 * time.Millisecond):
			case <-r.abort:
			}
		} else {
			for i := 0; i < 64; i++ {
				if _, err := r.p.Write(nil); err != nil {
					break
				}
			}
		}
	}
	r.stepsDone.Store(true)
	r.curStep.Store("wait")
	waitDone := make(chan struct{})
	if r.uwg != nil {
		go func() {
			time.Sleep(time.Millisecond)
			if cfg.UserWGUntilDone {
				// a member of the user's wait group that works until the container is
				// over (like the writer goroutine of _examples/progressAsWriter)
				for {
					if _, err := r.p.Write(nil); err != nil {
						break
					}
					select {
					case <-time.After(200 * time.Microsecond):
						continue
					case <-r.abort:
					}
					break
				}
			}
			s := r.event("client.uwg.done", 0, nil)
			r.mu.Lock()
			r.tr.UserWGDoneSeq = s
			r.mu.Unlock()
			r.uwg.Done()
		}()
	}
	go func() {
		r.p.Wait()
		s := r.event("client.wait.returned", 0, nil)
		dbg := r.debug.String()
		r.mu.Lock()
		r.tr.WaitSeq = s
		r.tr.DebugAtWait = dbg
		r.mu.Unlock()
		if r.rec != nil {
			r.rec.mu.Lock()
			n := len(r.rec.chunks)
			r.rec.mu.Unlock()
			r.mu.Lock()
			r.tr.ChunksAtWait = n
			r.tr.ShutdownsAtWait = map[[2]int]int{}
			for k, v := range r.tr.Shutdowns {
				r.tr.ShutdownsAtWait[k] = v
			}
			r.mu.Unlock()
		} else {
			r.mu.Lock()
			r.tr.ShutdownsAtWait = map[[2]int]int{}
			for k, v := range r.tr.Shutdowns {
				r.tr.ShutdownsAtWait[k] = v
			}
			r.mu.Unlock()
		}
		close(waitDone)
	}()
	r.waitStarted.Store(true)
	if cfg.Refresh == "autoinj" && cfg.Delay {
		// a refresh interval that is long compared with the time between the end of
		// the render delay and Wait: no tick gets in between (when every bar is done
		// already, Wait needs none)
		select {
		case <-waitDone:
		case <-r.abort:
			return
		case <-time.After(time.Millisecond):
		}
	}
pump:
	for {
		select {
		case <-waitDone:
			break pump
		case <-r.abort:
			return
		default:
		}
		if cfg.Refresh == "autoinj" {
			if !r.tick() {
				select {
				case <-waitDone:
				case <-r.abort:
					return
				}
				break pump
			}
			// Do not tick in a tight loop: the goroutines handing a tick around wake
			// each other through the scheduler's run-next slot and can keep every
			// other goroutine (the one returning from Wait included) off a single P
			// for a whole time slice, during which hundreds of frames would be drawn.
			select {
			case <-waitDone:
				break pump
			case <-r.abort:
				return
			case <-time.After(100 * time.Microsecond):
			}
		} else {
			select {
			case <-waitDone:
				break pump
			case <-r.abort:
				return
			case <-time.After(200 * time.Microsecond):
			}
		}
	}
	// after Wait: final getters, notifier, settle
	r.curStep.Store("post-wait")
	for i := range sc.Bars {
		if b := r.bar(i); b != nil {
			r.mu.Lock()
			r.tr.Final = append(r.tr.Final, GetRec{Step: -1, Bar: i, Cur: b.Current(), Completed: b.Completed(), Aborted: b.Aborted(), Running: b.IsRunning(), Seq: r.seq.Add(1)})
			r.tr.IDs[i] = b.ID()
			r.mu.Unlock()
		}
	}
	// Bar.Wait of every bar returns (their goroutines have exited)
	for i := range sc.Bars {
		if b := r.bar(i); b != nil {
			wch := make(chan struct{})
			go func() { b.Wait(); close(wch) }()
			select {
			case <-wch:
			case <-time.After(3 * time.Second):
				r.mu.Lock()
				r.tr.BarWaitStuck = append(r.tr.BarWaitStuck, i)
				r.mu.Unlock()
			case <-r.abort:
			}
		}
	}
	if len(sc.Late) > 0 {
		r.curStep.Store("late calls")
		r.late.Store(true)
		r.mu.Lock()
		na, nw := len(r.tr.Adds), len(r.tr.Writes)
		r.mu.Unlock()
		for i := range sc.Late {
			if r.aborted() {
				return
			}
			r.curStep.Store(fmt.Sprintf("late call %d %s bar=%d", i, sc.Late[i].Op, sc.Late[i].Bar))
			r.runStep(&sc.Late[i], len(sc.Steps)+i, 1)
		}
		r.mu.Lock()
		r.tr.LateAdds = append([]AddRec(nil), r.tr.Adds[na:]...)
		r.tr.LateWrites = append([]WriteRec(nil), r.tr.Writes[nw:]...)
		r.mu.Unlock()
		for i := range sc.Bars {
			if b := r.bar(i); b != nil {
				g := GetRec{Step: -2, Bar: i, Cur: b.Current(), Completed: b.Completed(), Aborted: b.Aborted(), Running: b.IsRunning(), Seq: r.seq.Add(1)}
				r.mu.Lock()
				r.tr.FinalLate = append(r.tr.FinalLate, g)
				r.mu.Unlock()
			}
		}
		r.curStep.Store("post-wait")
	}
	if cfg.Notifier {
		// exactly one value is expected; look for a second one while settling
		recv := func(d time.Duration) bool {
			select {
			case v := <-r.notifier:
				var idx []int
				if bs, ok := v.([]*mpb.Bar); ok {
					for _, b := range bs {
						if x, ok := r.ptr2idx.Load(b); ok {
							idx = append(idx, x.(int))
						} else {
							idx = append(idx, -1)
						}
					}
				} else {
					idx = []int{-99}
				}
				r.mu.Lock()
				r.tr.Notified = append(r.tr.Notified, idx)
				r.mu.Unlock()
				return true
			case <-time.After(d):
				return false
			case <-r.abort:
				return false
			}
		}
		if recv(2 * time.Second) {
			for i := 0; i < 20; i++ {
				runtime.Gosched()
			}
			for recv(3 * time.Millisecond) {
			}
		}
	}
	// settle: nothing may be written after Wait returned
	for i := 0; i < 50; i++ {
		runtime.Gosched()
	}
	time.Sleep(300 * time.Microsecond)
	if r.rec != nil {
		r.rec.mu.Lock()
		n := len(r.rec.chunks)
		r.rec.mu.Unlock()
		r.mu.Lock()
		r.tr.LateChunks = n - r.tr.ChunksAtWait
		r.mu.Unlock()
	}
	if r.opt.LeakCheck {
		st := r.opt.LeakStable
		if st == 0 {
			st = 150 * time.Millisecond
		}
		left, decided := WaitNoLibGoroutines(st, 5*time.Second, nil)
		r.mu.Lock()
		r.tr.Leaks, r.tr.LeakUndecided = left, !decided
		r.mu.Unlock()
	}
}

// finishBars makes every added, unfinished bar terminate (the premise of the
// liveness properties): complete or abort according to the epilogue.
func (r *runner) finishBars() {
	mode := r.sc.Epilogue
	if mode == "none" {
		return
	}
	for i := range r.sc.Bars {
		b := r.bar(i)
		if b == nil {
			continue
		}
		how := mode
		if mode == "mixed" {
			if i%2 == 0 {
				how = "complete"
			} else {
				how = "abort"
			}
		}
		if how == "abort" {
			inv := r.seq.Add(1)
			b.Abort(i%3 == 0)
			r.logCall(CallRec{Bar: i, Op: "abort", Flag: i%3 == 0, Inv: inv, Ret: r.seq.Add(1)})
		} else {
			inv := r.seq.Add(1)
			b.SetTotal(-1, true)
			mid := r.seq.Add(1)
			r.logCall(CallRec{Bar: i, Op: "settotal", N: -1, Flag: true, Inv: inv, Ret: mid})
			b.SetCurrent(math.MaxInt64)
			r.logCall(CallRec{Bar: i, Op: "setcur", N: math.MaxInt64, Inv: mid, Ret: r.seq.Add(1)})
		}
	}
}

// tick requests one render cycle and waits for its end. false = the container
// no longer renders (done or aborted run).
func (r *runner) tick() bool {
	n0 := r.rendEnd.Load()
	t := time.Now()
	switch r.sc.Cfg.Refresh {
	case "manual":
		select {
		case r.manual <- t:
		case <-r.serveDone:
			return false
		case <-r.abort:
			return false
		}
	case "autoinj":
		select {
		case r.rreq <- t:
		case <-r.serveDone:
			return false
		case <-r.abort:
			return false
		}
	default:
		return false
	}
	for r.rendEnd.Load() == n0 {
		select {
		case <-r.endSig:
		case <-r.serveDone:
			return r.rendEnd.Load() != n0
		case <-r.abort:
			return false
		case <-time.After(2 * time.Millisecond):
		}
	}
	return true
}

// tickWithPriorityChange requests a frame and has a client goroutine change a
// bar's priority while that cycle is rendering (started from the first filler
// call of the cycle). The call cannot be served before the cycle is over, so
// the model applies it right after the frame; the step returns once the call
// has returned.
func (r *runner) tickWithPriorityChange(st *Step, b *mpb.Bar) {
	done := make(chan struct{})
	var once sync.Once
	fire := func(async bool) {
		once.Do(func() {
			f := func() {
				defer close(done)
				if b == nil {
					return
				}
				switch st.Text {
				case "prio":
					b.SetPriority(int(st.N))
				case "uprio":
					r.p.UpdateBarPriority(b, int(st.N), false)
				default:
					r.p.UpdateBarPriority(b, int(st.N), true)
				}
			}
			if async {
				r.event("client.prio.midrender", st.Bar, nil)
				go f()
			} else {
				f()
			}
		})
	}
	r.midRender.Store(&fire)
	r.tick()
	r.midRender.Store(nil)
	fire(false)
	select {
	case <-done:
	case <-r.abort:
	}
}

// noteRunningAfterCancel: once the cancel call / Shutdown has returned every
// bar's context is done, so IsRunning must say false at once.
func (r *runner) noteRunningAfterCancel() {
	for i := range r.sc.Bars {
		if b := r.bar(i); b != nil && b.IsRunning() {
			r.mu.Lock()
			r.tr.RunningAfterCancel = append(r.tr.RunningAfterCancel, i)
			r.mu.Unlock()
		}
	}
}

func (r *runner) logCall(c CallRec) {
	r.mu.Lock()
	if len(r.tr.Calls) < 100000 {
		r.tr.Calls = append(r.tr.Calls, c)
	}
	r.mu.Unlock()
}

func (r *runner) runStep(st *Step, idx, depth int) {
	r.runStepC(st, idx, depth, 0)
}

func (r *runner) runStepC(st *Step, idx, depth, client int) {
	if depth == 0 {
		r.curStep.Store(fmt.Sprintf("step %d %s bar=%d", idx, st.Op, st.Bar))
	}
	defer r.activity.Add(1)
	b := r.bar(st.Bar)
	switch st.Op {
	case "add":
		if st.Bar < 0 || st.Bar >= len(r.sc.Bars) || b != nil {
			return
		}
		filler, opts := r.buildBarOptions(st.Bar)
		var tickRet chan struct{}
		if st.Flag && depth == 0 && (r.sc.Cfg.Refresh == "manual" || r.sc.Cfg.Refresh == "autoinj") {
			// user code inside an option callback asks for a frame and lingers a
			// little; the container cannot serve it before this Add is through
			opts = append(opts, mpb.BarFillerMiddleware(func(f mpb.BarFiller) mpb.BarFiller {
				tickRet = make(chan struct{})
				n0 := r.rendEnd.Load()
				r.event("client.tick", 1, nil)
				go func() { defer close(tickRet); r.tick() }()
				for dl := time.Now().Add(time.Millisecond); r.rendEnd.Load() == n0 && time.Now().Before(dl); {
					time.Sleep(50 * time.Microsecond)
				}
				return f
			}))
		}
		inv := r.seq.Add(1)
		nb, err := r.p.Add(r.sc.Bars[st.Bar].Total, filler, opts...)
		ret := r.seq.Add(1)
		if tickRet != nil {
			select {
			case <-tickRet:
			case <-r.abort:
			}
		}
		if err == nil && nb != nil {
			r.ptr2idx.Store(nb, st.Bar)
			r.barsMu.Lock()
			r.bars[st.Bar] = nb
			r.barsMu.Unlock()
		}
		r.mu.Lock()
		r.tr.Adds = append(r.tr.Adds, AddRec{Bar: st.Bar, Err: err, InvSeq: inv, RetSeq: ret})
		if err == nil {
			r.tr.Added[st.Bar] = true
			r.tr.AddOrder = append(r.tr.AddOrder, st.Bar)
		}
		r.mu.Unlock()
	case "add2":
		// two client goroutines add a bar each at the same time
		var wg sync.WaitGroup
		for _, idx2 := range []int{st.Bar, int(st.N)} {
			idx2 := idx2
			wg.Add(1)
			go func() {
				defer wg.Done()
				r.runStepC(&Step{Op: "add", Bar: idx2}, idx, depth+1, client)
			}()
		}
		wg.Wait()
	case "incr":
		if b != nil {
			inv := r.seq.Add(1)
			defer func() {
				n := st.N
				if st.Text == "one" || st.Text == "ewmaone" {
					n = 1
				}
				r.logCall(CallRec{Client: client, Bar: st.Bar, Op: "incr", N: n, Inv: inv, Ret: r.seq.Add(1)})
			}()
			switch st.Text {
			case "by":
				b.IncrBy(int(st.N))
			case "one":
				b.Increment()
			case "ewma":
				b.EwmaIncrInt64(st.N, time.Millisecond)
			case "ewmaby":
				b.EwmaIncrBy(int(st.N), time.Millisecond)
			case "ewmaone":
				b.EwmaIncrement(time.Millisecond)
			default:
				b.IncrInt64(st.N)
			}
		}
	case "setcur":
		if b != nil {
			inv := r.seq.Add(1)
			defer func() {
				r.logCall(CallRec{Client: client, Bar: st.Bar, Op: "setcur", N: st.N, Inv: inv, Ret: r.seq.Add(1)})
			}()
			if st.Text == "ewma" {
				b.EwmaSetCurrent(st.N, time.Millisecond)
			} else {
				b.SetCurrent(st.N)
			}
		}
	case "settotal":
		if b != nil {
			inv := r.seq.Add(1)
			b.SetTotal(st.N, st.Flag)
			r.logCall(CallRec{Client: client, Bar: st.Bar, Op: "settotal", N: st.N, Flag: st.Flag, Inv: inv, Ret: r.seq.Add(1)})
		}
	case "etc":
		if b != nil {
			inv := r.seq.Add(1)
			b.EnableTriggerComplete()
			r.logCall(CallRec{Client: client, Bar: st.Bar, Op: "etc", Inv: inv, Ret: r.seq.Add(1)})
		}
	case "abort":
		if b != nil {
			inv := r.seq.Add(1)
			b.Abort(st.Flag)
			r.logCall(CallRec{Client: client, Bar: st.Bar, Op: "abort", Flag: st.Flag, Inv: inv, Ret: r.seq.Add(1)})
		}
	case "refill":
		if b != nil {
			b.SetRefill(st.N)
		}
	case "prio":
		if b != nil {
			b.SetPriority(int(st.N))
		}
	case "uprio":
		if b != nil {
			r.p.UpdateBarPriority(b, int(st.N), st.Flag)
		}
	case "write":
		// the caller owns its buffer again as soon as Write returns (io.Writer
		// contract): scribble over it like a recycled buffer would be
		buf := []byte(st.Text)
		inv := r.seq.Add(1)
		n, err := r.p.Write(buf)
		ret := r.seq.Add(1)
		for i := range buf {
			buf[i] = '#'
		}
		r.mu.Lock()
		r.tr.Writes = append(r.tr.Writes, WriteRec{Text: st.Text, N: n, Err: err, InvSeq: inv, RetSeq: ret})
		r.mu.Unlock()
	case "tick":
		r.event("client.tick", 0, nil)
		if st.Text == "prio" || st.Text == "uprio" || st.Text == "uprio-lazy" {
			r.tickWithPriorityChange(st, b)
		} else {
			r.tick()
		}
	case "cancel":
		s := r.event("client.cancel", 0, nil)
		r.mu.Lock()
		if r.tr.CancelSeq == 0 {
			r.tr.CancelSeq = s
			r.tr.CyclesAtCancel = r.cycle.Load()
		}
		r.mu.Unlock()
		r.cancelled.Store(true)
		r.cancel()
		// (the sequence number at which the cancellation has certainly taken effect:
		// the event above was numbered before this goroutine queued for the trace
		// lock, which under a busy render loop can take milliseconds)
		r.cancelEff.CompareAndSwap(0, r.seq.Add(1))
		r.noteRunningAfterCancel()
	case "shutdown":
		s := r.event("client.cancel", 1, nil)
		r.mu.Lock()
		if r.tr.CancelSeq == 0 {
			r.tr.CancelSeq = s
			r.tr.CyclesAtCancel = r.cycle.Load()
		}
		r.mu.Unlock()
		r.cancelled.Store(true)
		r.p.Shutdown()
		r.noteRunningAfterCancel()
	case "release":
		r.delayMu.Lock()
		pendingDelay := r.delay != nil && !r.delayReleased
		if pendingDelay {
			r.delayReleased = true
		}
		r.delayMu.Unlock()
		if pendingDelay {
			r.event("client.release", 0, nil)
			close(r.delay)
			// the container picks the release up in its select loop, where it competes
			// with whatever else is ready; every empty Write makes the loop go round
			// once more, so after 64 of them the release has been taken (1 - 2^-64)
			for i := 0; i < 64; i++ {
				if _, err := r.p.Write(nil); err != nil {
					break
				}
			}
		}
	case "barwait":
		if b != nil {
			done := make(chan struct{})
			go func() { b.Wait(); close(done) }()
			for {
				select {
				case <-done:
					return
				case <-r.abort:
					return
				default:
				}
				if r.sc.Cfg.Refresh == "autoinj" {
					if !r.tick() {
						select {
						case <-done:
						case <-r.abort:
						}
						return
					}
					select {
					case <-done:
						return
					case <-r.abort:
						return
					case <-time.After(100 * time.Microsecond):
					}
				} else {
					select {
					case <-done:
						return
					case <-r.abort:
						return
					case <-time.After(100 * time.Microsecond):
					}
				}
			}
		}
	case "get":
		if b != nil {
			i1 := r.seq.Add(1)
			cur := b.Current()
			i2 := r.seq.Add(1)
			comp := b.Completed()
			i3 := r.seq.Add(1)
			ab := b.Aborted()
			i4 := r.seq.Add(1)
			r.logCall(CallRec{Client: client, Bar: st.Bar, Op: "current", Inv: i1, Ret: i2, OutN: cur})
			r.logCall(CallRec{Client: client, Bar: st.Bar, Op: "completed", Inv: i2, Ret: i3, OutB: comp})
			r.logCall(CallRec{Client: client, Bar: st.Bar, Op: "aborted", Inv: i3, Ret: i4, OutB: ab})
			g := GetRec{Step: idx, Bar: st.Bar, Cur: cur, Completed: comp, Aborted: ab, Running: b.IsRunning()}
			g.Seq = r.seq.Add(1)
			r.mu.Lock()
			r.tr.Gets = append(r.tr.Gets, g)
			r.mu.Unlock()
			if st.Flag && depth == 0 {
				// two clients ask different getters of the bar at the same time
				var wg sync.WaitGroup
				recs := []*PollRec{{Step: idx, Bar: st.Bar, Getter: "completed"}, {Step: idx, Bar: st.Bar, Getter: "aborted"}}
				for _, pr := range recs {
					pr := pr
					wg.Add(1)
					go func() {
						defer wg.Done()
						for i := 0; i < 40; i++ {
							if pr.Getter == "completed" {
								pr.Vals = append(pr.Vals, b.Completed())
							} else {
								pr.Vals = append(pr.Vals, b.Aborted())
							}
						}
					}()
				}
				wg.Wait()
				r.mu.Lock()
				r.tr.Polls = append(r.tr.Polls, *recs[0], *recs[1])
				r.mu.Unlock()
			}
		}
	case "id":
		if b != nil {
			_ = b.ID()
		}
	case "traverse":
		if b != nil {
			b.TraverseDecorators(func(decor.Decorator) {})
			b.DecoratorAverageAdjust(time.Now())
		}
	case "proxy":
		if b != nil {
			pr := b.ProxyReader(strings.NewReader(strings.Repeat("x", int(st.N%64))))
			if pr != nil {
				_, _ = io.Copy(io.Discard, pr)
				_ = pr.Close()
			}
			pw := b.ProxyWriter(io.Discard)
			if pw != nil {
				_, _ = pw.Write([]byte("yy"))
				_ = pw.Close()
			}
			if r.late.Load() {
				r.mu.Lock()
				r.tr.LateProxies += 2
				if pr != nil {
					r.tr.LateProxyNonNil++
				}
				if pw != nil {
					r.tr.LateProxyNonNil++
				}
				r.mu.Unlock()
			}
		}
	case "sleep":
		select {
		case <-time.After(time.Duration(st.N) * time.Microsecond):
		case <-r.abort:
		}
	case "resize":
		if r.pty != nil {
			_ = r.pty.Resize(int(st.N), int(st.Bar))
		}
	case "par":
		var wg sync.WaitGroup
		for bi, blk := range st.Par {
			blk := blk
			cid := bi + 1
			wg.Add(1)
			go func() {
				defer wg.Done()
				for i := range blk {
					if r.aborted() {
						return
					}
					r.runStepC(&blk[i], idx, depth+1, cid)
				}
			}()
		}
		wg.Wait()
	}
}

func max(a, b int) int {
	if a > b {
		return a
	}
	return b
}
