package engine

import (
	"fmt"
	"strings"
	"unicode/utf8"

	"github.com/mattn/go-runewidth"
)

// VT is a VT100-subset terminal: printable runes with cell widths and
// autowrap, LF (with implied CR, as a tty in ONLCR mode or a plain text view
// shows it), CR, CSI n A (cursor up), CSI J (erase below), CSI ... m (ignored).
// Rows <= 0 means unbounded (no scrolling): the model of a byte stream viewed
// as a document.
type VT struct {
	Rows, Cols int
	Screen     [][]rune // each line as runes (cells are not modelled beyond width)
	widths     []int
	Scrollback []string
	CurRow     int
	curCol     int
	Errors     []string
	Wrapped    int // number of autowraps that happened
}

func NewVT(rows, cols int) *VT {
	v := &VT{Rows: rows, Cols: cols}
	v.Screen = [][]rune{nil}
	v.widths = []int{0}
	return v
}

func (v *VT) line() int { return v.CurRow }

func (v *VT) newline() {
	v.curCol = 0
	if v.Rows > 0 && v.CurRow == v.Rows-1 {
		// scroll up: top line goes to the scrollback
		v.Scrollback = append(v.Scrollback, strings.TrimRight(string(v.Screen[0]), " "))
		v.Screen = append(v.Screen[1:], nil)
		v.widths = append(v.widths[1:], 0)
		return
	}
	v.CurRow++
	for len(v.Screen) <= v.CurRow {
		v.Screen = append(v.Screen, nil)
		v.widths = append(v.widths, 0)
	}
}

func (v *VT) put(r rune) {
	w := runewidth.RuneWidth(r)
	if v.Cols > 0 && v.curCol+w > v.Cols {
		v.Wrapped++
		v.newline()
	}
	ln := v.Screen[v.CurRow]
	if v.curCol < v.widths[v.CurRow] {
		// overwriting part of an existing line: model as cell replace by column
		cells := expand(ln)
		for len(cells) < v.curCol+w {
			cells = append(cells, ' ')
		}
		cells[v.curCol] = r
		for k := 1; k < w; k++ {
			cells[v.curCol+k] = 0
		}
		v.Screen[v.CurRow] = compact(cells)
		if v.curCol+w > v.widths[v.CurRow] {
			v.widths[v.CurRow] = v.curCol + w
		}
	} else {
		for v.widths[v.CurRow] < v.curCol {
			ln = append(ln, ' ')
			v.widths[v.CurRow]++
		}
		v.Screen[v.CurRow] = append(ln, r)
		v.widths[v.CurRow] += w
	}
	v.curCol += w
}

func expand(ln []rune) []rune {
	var cells []rune
	for _, r := range ln {
		w := runewidth.RuneWidth(r)
		if w == 0 {
			continue
		}
		cells = append(cells, r)
		for k := 1; k < w; k++ {
			cells = append(cells, 0)
		}
	}
	return cells
}

func compact(cells []rune) []rune {
	var ln []rune
	for _, r := range cells {
		if r != 0 {
			ln = append(ln, r)
		}
	}
	return ln
}

// Feed interprets bytes.
func (v *VT) Feed(data []byte) {
	s := string(data)
	for i := 0; i < len(s); {
		c := s[i]
		switch {
		case c == '\n':
			v.newline()
			i++
		case c == '\r':
			v.curCol = 0
			i++
		case c == 0x1b:
			if i+1 < len(s) && s[i+1] == '[' {
				j := i + 2
				for j < len(s) && (s[j] >= '0' && s[j] <= '9' || s[j] == ';') {
					j++
				}
				if j >= len(s) {
					v.Errors = append(v.Errors, "truncated escape sequence")
					return
				}
				arg := s[i+2 : j]
				switch s[j] {
				case 'A':
					n := 1
					if arg != "" {
						fmt.Sscanf(arg, "%d", &n)
					}
					if n == 0 {
						n = 1
					}
					if n > v.CurRow {
						if v.Rows <= 0 || n > v.CurRow {
							if n > v.CurRow {
								v.Errors = append(v.Errors, fmt.Sprintf("cursor up %d from row %d clamps at the top", n, v.CurRow))
							}
						}
						n = v.CurRow
					}
					v.CurRow -= n
				case 'J':
					if arg != "" && arg != "0" {
						v.Errors = append(v.Errors, "unexpected erase mode "+arg)
					}
					// erase from cursor to end of screen
					cells := expand(v.Screen[v.CurRow])
					if v.curCol < len(cells) {
						cells = cells[:v.curCol]
					}
					v.Screen[v.CurRow] = compact(cells)
					v.widths[v.CurRow] = len(cells)
					for k := v.CurRow + 1; k < len(v.Screen); k++ {
						v.Screen[k] = nil
						v.widths[k] = 0
					}
				case 'm':
				default:
					v.Errors = append(v.Errors, fmt.Sprintf("unexpected control sequence CSI %s%c", arg, s[j]))
				}
				i = j + 1
			} else {
				v.Errors = append(v.Errors, "unexpected escape")
				i++
			}
		case c < 0x20:
			v.Errors = append(v.Errors, fmt.Sprintf("unexpected control byte 0x%02x", c))
			i++
		default:
			r, sz := decodeRune(s[i:])
			v.put(r)
			i += sz
		}
	}
}

func decodeRune(s string) (rune, int) {
	return utf8.DecodeRuneInString(s)
}

// Lines returns scrollback + screen as right-trimmed lines, without trailing
// empty lines.
func (v *VT) Lines() []string {
	out := append([]string(nil), v.Scrollback...)
	for _, ln := range v.Screen {
		out = append(out, strings.TrimRight(string(ln), " "))
	}
	for len(out) > 0 && out[len(out)-1] == "" {
		out = out[:len(out)-1]
	}
	return out
}

// ScreenLines returns only the visible screen (right-trimmed, trailing empty
// lines dropped).
func (v *VT) ScreenLines() []string {
	var out []string
	for _, ln := range v.Screen {
		out = append(out, strings.TrimRight(string(ln), " "))
	}
	for len(out) > 0 && out[len(out)-1] == "" {
		out = out[:len(out)-1]
	}
	return out
}
