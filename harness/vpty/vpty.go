// Package vpty opens a pseudo terminal of a chosen size so that mpb's terminal
// code path (real TIOCGWINSZ size queries) can be driven by the harness.
package vpty

import (
	"bytes"
	"fmt"
	"os"
	"sync"
	"time"

	"golang.org/x/sys/unix"
)

type Pty struct {
	Master *os.File
	Slave  *os.File
	mu     sync.Mutex
	chunks [][]byte
	done   chan struct{}
}

// Open creates a pty with the given size. Output post-processing is switched
// off, so the bytes read from the master are the bytes written to the slave.
func Open(rows, cols int) (*Pty, error) {
	m, err := os.OpenFile("/dev/ptmx", os.O_RDWR|unix.O_NOCTTY, 0)
	if err != nil {
		return nil, err
	}
	fd := int(m.Fd())
	if err := unix.IoctlSetPointerInt(fd, unix.TIOCSPTLCK, 0); err != nil {
		m.Close()
		return nil, fmt.Errorf("unlockpt: %v", err)
	}
	n, err := unix.IoctlGetInt(fd, unix.TIOCGPTN)
	if err != nil {
		m.Close()
		return nil, fmt.Errorf("ptsname: %v", err)
	}
	s, err := os.OpenFile(fmt.Sprintf("/dev/pts/%d", n), os.O_RDWR|unix.O_NOCTTY, 0)
	if err != nil {
		m.Close()
		return nil, err
	}
	// raw output: no ONLCR translation
	if t, err := unix.IoctlGetTermios(int(s.Fd()), unix.TCGETS); err == nil {
		t.Oflag &^= unix.OPOST
		t.Lflag &^= unix.ECHO
		_ = unix.IoctlSetTermios(int(s.Fd()), unix.TCSETS, t)
	}
	p := &Pty{Master: m, Slave: s, done: make(chan struct{})}
	if err := p.Resize(rows, cols); err != nil {
		p.Close()
		return nil, err
	}
	go p.drain()
	return p, nil
}

func (p *Pty) Resize(rows, cols int) error {
	return unix.IoctlSetWinsize(int(p.Master.Fd()), unix.TIOCSWINSZ, &unix.Winsize{Row: uint16(rows), Col: uint16(cols)})
}

func (p *Pty) drain() {
	defer close(p.done)
	buf := make([]byte, 65536)
	for {
		n, err := p.Master.Read(buf)
		if n > 0 {
			b := append([]byte(nil), buf[:n]...)
			p.mu.Lock()
			p.chunks = append(p.chunks, b)
			p.mu.Unlock()
		}
		if err != nil {
			return
		}
	}
}

// Bytes returns everything read from the master so far.
func (p *Pty) Bytes() []byte {
	p.mu.Lock()
	defer p.mu.Unlock()
	var out []byte
	for _, c := range p.chunks {
		out = append(out, c...)
	}
	return out
}

func (p *Pty) Close() {
	p.Slave.Close()
	p.Master.Close()
	<-p.done
}

const Marker = "\x1b[999m"

// Sync writes a private marker to the slave and waits until the drain
// goroutine has seen it, then returns all bytes before the marker.
func (p *Pty) Sync() ([]byte, error) {
	if _, err := p.Slave.Write([]byte(Marker)); err != nil {
		return nil, err
	}
	for i := 0; i < 20000; i++ {
		b := p.Bytes()
		if j := bytes.LastIndex(b, []byte(Marker)); j >= 0 {
			return bytes.ReplaceAll(b[:j], []byte(Marker), nil), nil
		}
		time.Sleep(100 * time.Microsecond)
	}
	return nil, fmt.Errorf("pty marker not seen")
}

// EndMarker terminates the stream in SyncRaw.
const EndMarker = "\x1b[998m"

// SyncRaw writes a distinct end marker and returns everything before it,
// keeping the per-frame markers (the engine writes one after every render
// cycle to delimit frames).
func (p *Pty) SyncRaw() ([]byte, error) {
	if _, err := p.Slave.Write([]byte(EndMarker)); err != nil {
		return nil, err
	}
	for i := 0; i < 50000; i++ {
		b := p.Bytes()
		if j := bytes.Index(b, []byte(EndMarker)); j >= 0 {
			return b[:j], nil
		}
		time.Sleep(100 * time.Microsecond)
	}
	return nil, fmt.Errorf("pty end marker not seen")
}
