package props

import (
	"fmt"
	"io"
	"math"
	"math/big"
	"regexp"
	"sort"
	"strconv"
	"strings"
	"sync"
	"time"

	"github.com/VividCortex/ewma"
	mpb "github.com/vbauerster/mpb/v8"
	"github.com/vbauerster/mpb/v8/decor"
	"pgregory.net/rapid"
)

// C20 — size, percentage, time and rate decorators print the true value.
//
// Oracles: round-trip (parse the printed text back and compare with the exact
// value, tolerance = half a unit of the last printed digit plus float64
// resolution), sound clock brackets for everything that reads time.Since,
// a reference carry rule for the moving-average estimators observed through a
// recording ewma.MovingAverage, and the freeze relation for completed bars.

type c20Fmt struct {
	Flags string `json:"flags"` // subset of " +-0#"
	Width int    `json:"width"` // 0 = none
	Prec  int    `json:"prec"`  // -1 = none
	Verb  string `json:"verb"`
}

func (f c20Fmt) String() string {
	s := "%" + f.Flags
	if f.Width > 0 {
		s += strconv.Itoa(f.Width)
	}
	if f.Prec >= 0 {
		s += "." + strconv.Itoa(f.Prec)
	}
	return s + f.Verb
}

func (f c20Fmt) space() bool { return strings.Contains(f.Flags, " ") }

type c20Sample struct {
	N   int64 `json:"n"`
	Dur int64 `json:"dur_ns"`
	// Plain: not a timed sample but a plain IncrInt64(N) on the bar (via-bar cases
	// only): estimators must not hear of it
	Plain bool `json:"plain,omitempty"`
}

type c20Case struct {
	Kind    string      `json:"kind"` // size pair pct elapsed eta avgeta speed avgspeed ewma freeze
	Unit    int         `json:"unit"` // 0, 1000, 1024
	F       c20Fmt      `json:"fmt"`
	Current int64       `json:"current"`
	Total   int64       `json:"total"`
	Which   string      `json:"which,omitempty"` // size: current|total
	Style   int         `json:"style"`
	DurNs   int64       `json:"dur_ns,omitempty"`
	Avg     float64     `json:"avg,omitempty"` // constant moving average value (ns per item)
	Samples []c20Sample `json:"samples,omitempty"`
	AvgKind string      `json:"avg_kind,omitempty"` // record | median
	Target  string      `json:"target,omitempty"`   // ewma/freeze: eta | speed | elapsed | avgspeed
	Wrap    []string    `json:"wrap,omitempty"`
	ViaBar  bool        `json:"via_bar,omitempty"`
	Render  bool        `json:"render_between,omitempty"` // ewma: the decorator is drawn after every sample, not only at the end
	Age     float64     `json:"age,omitempty"`            // ewma, avg_kind "age": decor.EwmaETA / decor.EwmaSpeed with this age
	W       int         `json:"w,omitempty"`
	C       int         `json:"c,omitempty"`
}

func init() {
	register(&Prop{ID: "C20", Gen: genC20, New: func() interface{} { return new(c20Case) }, Run: runC20})
}

var unitBoundaries = []int64{1, 1000, 1024, 1000000, 1 << 20, 1000000000, 1 << 30, 1000000000000, 1 << 40,
	999, 1023, 999999, 1<<20 - 1, 999999999, 1<<30 - 1, 999999999999, 1<<40 - 1, 999500, 999499, 1048063, 1048064}

func genC20Value(t *rapid.T, label string) int64 {
	switch rapid.IntRange(0, 3).Draw(t, label+".k") {
	case 0:
		b := rapid.SampledFrom(unitBoundaries).Draw(t, label+".b")
		d := rapid.Int64Range(-2, 2).Draw(t, label+".d")
		if b+d < 0 {
			return b
		}
		return b + d
	case 1:
		// mantissa * unit: values whose printed digits sit at rounding boundaries
		u := rapid.SampledFrom([]int64{1, 1000, 1024, 1000000, 1 << 20, 1000000000, 1 << 30, 1000000000000, 1 << 40}).Draw(t, label+".u")
		m := rapid.Int64Range(0, 9999).Draw(t, label+".m")
		q := rapid.Int64Range(1, 2000).Draw(t, label+".q")
		v := new(big.Int).Mul(big.NewInt(u), big.NewInt(m))
		v.Div(v, big.NewInt(q))
		if v.IsInt64() {
			return v.Int64()
		}
		return u
	default:
		return genNonNegInt64(t, label)
	}
}

func genC20Fmt(t *rapid.T, floatOnly bool) c20Fmt {
	var f c20Fmt
	if rapid.IntRange(0, 1).Draw(t, "space") == 0 {
		f.Flags = " "
	}
	if rapid.IntRange(0, 9).Draw(t, "oddflag") == 0 {
		f.Flags += rapid.SampledFrom([]string{"+", "-", "0", "#"}).Draw(t, "flag")
	}
	if rapid.IntRange(0, 5).Draw(t, "haswidth") == 0 {
		f.Width = rapid.IntRange(1, 14).Draw(t, "fwidth")
	}
	f.Prec = -1
	if rapid.IntRange(0, 2).Draw(t, "hasprec") > 0 {
		f.Prec = rapid.IntRange(0, 9).Draw(t, "prec")
	}
	if floatOnly {
		f.Verb = rapid.SampledFrom([]string{"f", "f", "e", "E", "g", "G", "v"}).Draw(t, "fverb")
		if f.Verb == "v" {
			f.Flags = strings.ReplaceAll(f.Flags, "#", "")
		}
	} else {
		f.Verb = rapid.SampledFrom([]string{"d", "d", "f", "f", "s", "v", "e", "E", "g", "G", "x", "X", "q", "c", "U"}).Draw(t, "verb")
	}
	return f
}

const maxDur = int64(60*time.Hour) - 1

func genC20Dur(t *rapid.T, label string) int64 {
	switch rapid.IntRange(0, 3).Draw(t, label+".k") {
	case 0:
		// around unit boundaries
		b := rapid.SampledFrom([]int64{0, int64(time.Second), int64(time.Minute), int64(time.Hour), int64(10 * time.Hour), int64(24 * time.Hour), int64(48 * time.Hour), int64(59*time.Hour + 59*time.Minute + 59*time.Second)}).Draw(t, label+".b")
		d := rapid.Int64Range(-int64(2*time.Second), int64(2*time.Second)).Draw(t, label+".d")
		v := b + d
		if v < 0 {
			v = 0
		}
		if v > maxDur {
			v = maxDur
		}
		return v
	case 1:
		return rapid.Int64Range(0, int64(2*time.Minute)).Draw(t, label+".small")
	default:
		return rapid.Int64Range(0, maxDur).Draw(t, label+".any")
	}
}

func genC20(t *rapid.T) interface{} {
	c := &c20Case{}
	c.Kind = rapid.SampledFrom([]string{"size", "size", "pair", "pct", "pct", "elapsed", "eta", "eta", "avgeta", "speed", "speed", "avgspeed", "ewma", "ewma", "ewma", "freeze"}).Draw(t, "kind")
	c.Unit = rapid.SampledFrom([]int{1000, 1024, 1000, 1024, 0}).Draw(t, "unit")
	c.Style = rapid.IntRange(0, 3).Draw(t, "style")
	c.W = rapid.SampledFrom([]int{0, 0, 3, 20}).Draw(t, "W")
	c.C = rapid.IntRange(0, 3).Draw(t, "C")
	switch c.Kind {
	case "size", "pair":
		c.F = genC20Fmt(t, false)
		if c.Unit == 0 {
			c.F.Verb = rapid.SampledFrom([]string{"d", "v"}).Draw(t, "intverb")
			c.F.Prec = -1
			c.F.Flags = strings.ReplaceAll(strings.ReplaceAll(c.F.Flags, "#", ""), "+", "")
		}
		c.Total = genC20Value(t, "total")
		if rapid.Bool().Draw(t, "curnear") && c.Total > 0 {
			c.Current = rapid.Int64Range(0, c.Total).Draw(t, "cur")
		} else {
			c.Current = genC20Value(t, "curv")
			if c.Current > c.Total {
				c.Current, c.Total = c.Total, c.Current
			}
		}
		c.Which = rapid.SampledFrom([]string{"current", "total"}).Draw(t, "which")
	case "pct":
		c.F = genC20Fmt(t, false)
		c.Total = genNonNegInt64(t, "total")
		switch rapid.IntRange(0, 3).Draw(t, "pk") {
		case 0:
			if c.Total > 0 {
				// current at k/1000 of total (rounding boundaries of printed digits)
				k := rapid.Int64Range(0, 2000).Draw(t, "k")
				v := new(big.Int).Mul(big.NewInt(c.Total), big.NewInt(k))
				v.Div(v, big.NewInt(2000))
				c.Current = v.Int64()
			}
		case 1:
			c.Total = rapid.Int64Range(1<<57, math.MaxInt64).Draw(t, "bigtotal") // current*100 beyond 2^64
			c.Current = rapid.Int64Range(0, c.Total).Draw(t, "bigcur")
		default:
			if c.Total > 0 {
				c.Current = rapid.Int64Range(0, c.Total).Draw(t, "cur")
			}
		}
	case "elapsed":
		c.DurNs = genC20Dur(t, "dur")
		if c.DurNs > maxDur-int64(200*time.Millisecond) {
			c.DurNs = maxDur - int64(200*time.Millisecond)
		}
	case "eta":
		c.DurNs = genC20Dur(t, "remaining")
		// remaining = items * round(avg)
		c.Avg = rapid.Float64Range(0.5, 5e11).Draw(t, "avg")
		if rapid.IntRange(0, 3).Draw(t, "avgk") == 0 {
			c.Avg = float64(rapid.SampledFrom([]int64{1, 1000, 1000000, 1000000000, 60000000000, 3600000000000}).Draw(t, "avgb"))
		}
		per := int64(math.Round(c.Avg))
		if per < 1 {
			per = 1
		}
		items := c.DurNs / per
		c.Current = rapid.Int64Range(0, 1<<40).Draw(t, "cur")
		c.Total = c.Current + items
		c.AvgKind = "const"
	case "avgeta":
		c.DurNs = rapid.Int64Range(int64(time.Millisecond), int64(20*time.Hour)).Draw(t, "elapsed")
		c.Current = rapid.Int64Range(0, 1<<30).Draw(t, "cur")
		// keep remaining under 60 h: (total-current) * elapsed/current < 60h
		if c.Current > 0 {
			per := float64(c.DurNs+int64(50*time.Millisecond)) / float64(c.Current)
			maxItems := int64(float64(maxDur)/per) - 1
			if maxItems < 0 {
				maxItems = 0
			}
			if maxItems > 1<<40 {
				maxItems = 1 << 40
			}
			c.Total = c.Current + rapid.Int64Range(0, maxItems).Draw(t, "items")
		} else {
			c.Total = rapid.Int64Range(0, 1<<40).Draw(t, "total0")
		}
	case "speed":
		c.F = genC20Fmt(t, c.Unit == 0)
		// average = ns per byte; speed = 1e9/avg bytes per second, kept <= 1e18
		sp := float64(genC20Value(t, "speed"))
		if sp > 1e18 {
			sp = 1e18
		}
		if sp <= 0 {
			c.Avg = 0
		} else {
			c.Avg = 1e9 / sp
		}
	case "avgspeed":
		c.F = genC20Fmt(t, c.Unit == 0)
		c.DurNs = rapid.Int64Range(int64(time.Millisecond), maxDur).Draw(t, "elapsed")
		c.Current = genC20Value(t, "cur")
		if c.Current > 1<<50 {
			c.Current >>= 13
		}
		c.Total = c.Current
	case "ewma":
		c.Target = rapid.SampledFrom([]string{"eta", "speed"}).Draw(t, "target")
		c.AvgKind = rapid.SampledFrom([]string{"record", "record", "median", "median", "hybrid", "age"}).Draw(t, "avgkind")
		c.ViaBar = rapid.Bool().Draw(t, "viabar")
		c.Render = rapid.Bool().Draw(t, "renderbetween")
		if c.AvgKind == "age" {
			// the library's own EWMA constructors: age 0 selects the default average
			c.Age = rapid.SampledFrom([]float64{0, 0, 1, 2, 5, 10, 30, 100}).Draw(t, "age")
			c.ViaBar = false
		}
		if c.AvgKind == "hybrid" {
			c.ViaBar = true // a user-defined estimator that is also an AverageDecorator and a ShutdownListener
		}
		nw := rapid.IntRange(0, 4).Draw(t, "nwrap")
		for i := 0; i < nw; i++ {
			c.Wrap = append(c.Wrap, rapid.SampledFrom([]string{"oncomplete", "onabort", "meta", "oncompletemeta", "onabortmeta", "ocoa", "ocmoam", "cond"}).Draw(t, "wrap"))
		}
		ns := rapid.IntRange(0, 50).Draw(t, "nsamples")
		for i := 0; i < ns; i++ {
			var s c20Sample
			switch rapid.IntRange(0, 5).Draw(t, "nk") {
			case 0:
				s.N = 0
			case 1:
				s.N = -rapid.Int64Range(0, 5).Draw(t, "nneg")
			case 2:
				s.N = rapid.Int64Range(1, 1<<40).Draw(t, "nbig")
			default:
				s.N = rapid.Int64Range(1, 100).Draw(t, "n")
			}
			switch rapid.IntRange(0, 4).Draw(t, "dk") {
			case 0:
				s.Dur = 0
			case 1:
				s.Dur = rapid.Int64Range(0, int64(time.Hour)).Draw(t, "dbig")
			default:
				s.Dur = rapid.Int64Range(0, int64(50*time.Millisecond)).Draw(t, "d")
			}
			if c.ViaBar && c.AvgKind != "hybrid" && s.N > 0 && s.N < 1<<30 && rapid.IntRange(0, 6).Draw(t, "plain") == 0 {
				s.Plain, s.Dur = true, 0
			}
			if c.AvgKind == "age" {
				// progress in every sample, a few nanoseconds to a few seconds per item
				s.N = rapid.Int64Range(1, 100).Draw(t, "agen")
				s.Dur = s.N * rapid.Int64Range(1000, int64(3*time.Second)).Draw(t, "ageper")
			}
			c.Samples = append(c.Samples, s)
		}
		c.Current = rapid.Int64Range(0, 1000).Draw(t, "cur")
		c.Total = c.Current + rapid.Int64Range(0, 1000).Draw(t, "left")
		c.F = c20Fmt{Flags: " ", Prec: 3, Verb: "f"}
	case "freeze":
		c.Target = rapid.SampledFrom([]string{"elapsed", "avgspeed"}).Draw(t, "ftarget")
		c.DurNs = rapid.Int64Range(1, 50).Draw(t, "k") * int64(time.Second)
		c.Current = rapid.Int64Range(1, 1<<30).Draw(t, "cur")
		c.Total = c.Current
		c.F = c20Fmt{Flags: " ", Prec: 9, Verb: "f"}
	}
	return c
}

// ---- oracle helpers ----------------------------------------------------

var sizeRe = regexp.MustCompile(`^(.+?)( ?)(TiB|GiB|MiB|KiB|TB|GB|MB|KB|b)(/s)?$`)

func unitValue(name string) int64 {
	switch name {
	case "b":
		return 1
	case "KB":
		return 1000
	case "MB":
		return 1000000
	case "GB":
		return 1000000000
	case "TB":
		return 1000000000000
	case "KiB":
		return 1 << 10
	case "MiB":
		return 1 << 20
	case "GiB":
		return 1 << 30
	case "TiB":
		return 1 << 40
	}
	return 0
}

// wantUnit: the largest unit of the family that is <= v ("b" below the first).
func wantUnit(base int, v int64) string {
	names := []string{"b", "KB", "MB", "GB", "TB"}
	if base == 1024 {
		names = []string{"b", "KiB", "MiB", "GiB", "TiB"}
	}
	best := names[0]
	for _, n := range names {
		if unitValue(n) <= v {
			best = n
		}
	}
	return best
}

// effVerbPrec mirrors the documented behaviour of the formatter types: the
// float verbs keep their meaning, every other verb prints an integer number.
func effVerbPrec(f c20Fmt) (byte, int) {
	switch f.Verb {
	case "f", "e", "E":
		if f.Prec >= 0 {
			return f.Verb[0], f.Prec
		}
		return f.Verb[0], 6
	case "g", "G", "x", "X", "b":
		return f.Verb[0], f.Prec
	}
	return 'f', 0
}

// exp10 returns floor(log10(x)) exactly (x > 0).
func exp10(x float64) float64 {
	str := strconv.FormatFloat(x, 'e', -1, 64)
	i := strings.IndexByte(str, 'e')
	e, _ := strconv.Atoi(str[i+1:])
	return float64(e)
}

// printTol: half a unit of the last printed digit of x under (verb, prec), plus
// float64 resolution (the library computes in float64).
func printTol(verb byte, prec int, x float64) float64 {
	ax := math.Abs(x)
	slack := ax*8*1.1102230246251565e-16 + 1e-300
	switch verb {
	case 'f':
		return 0.5*math.Pow(10, -float64(prec)) + slack
	case 'e', 'E':
		if ax == 0 {
			return slack
		}
		return 0.5*math.Pow(10, exp10(ax)-float64(prec))*1.0000001 + slack
	case 'g', 'G':
		if prec < 0 {
			return slack // shortest representation that round-trips
		}
		if prec == 0 {
			prec = 1
		}
		if ax == 0 {
			return slack
		}
		return 0.5*math.Pow(10, exp10(ax)-float64(prec-1))*1.0000001 + slack
	case 'x', 'X':
		if prec < 0 || ax == 0 {
			return slack
		}
		return 0.5*math.Pow(2, float64(math.Ilogb(ax)))*math.Pow(16, -float64(prec))*1.0000001 + slack
	}
	return slack
}

func parseNumber(s string) (float64, error) {
	s = strings.TrimSpace(s)
	s = strings.TrimPrefix(s, "+")
	v, err := strconv.ParseFloat(s, 64)
	if err != nil {
		return 0, fmt.Errorf("number %q does not parse: %v", s, err)
	}
	if math.IsNaN(v) || math.IsInf(v, 0) {
		return 0, fmt.Errorf("number %q is not finite", s)
	}
	return v, nil
}

// checkSize verifies one printed size (or speed) against the exact value
// lo..hi (bytes or bytes/s; lo==hi for exact values).
func checkSize(out string, base int, f c20Fmt, lo, hi float64, speed bool, intRound bool) error {
	m := sizeRe.FindStringSubmatch(out)
	if m == nil {
		return fmt.Errorf("output %q is not <number>[ ]<unit>", out)
	}
	if (m[4] == "/s") != speed {
		return fmt.Errorf("output %q: rate suffix mismatch", out)
	}
	if (m[2] == " ") != f.space() {
		return fmt.Errorf("output %q: space between number and unit does not follow the format's space flag", out)
	}
	num, err := parseNumber(m[1])
	if err != nil {
		return fmt.Errorf("output %q: %v", out, err)
	}
	u := unitValue(m[3])
	if (base == 1024) != strings.HasSuffix(m[3], "iB") && m[3] != "b" {
		return fmt.Errorf("output %q: unit of the wrong family", out)
	}
	// unit: the largest that fits the value (any value of the bracket; for
	// rounded speeds the integer the decorator rounds to)
	okUnit := false
	cands := []float64{lo, hi}
	if intRound {
		cands = append(cands, math.Round(lo), math.Round(hi), math.Floor(lo), math.Ceil(hi))
	}
	for _, v := range cands {
		if v >= 0 && v < 9.2e18 && wantUnit(base, int64(v)) == m[3] {
			okUnit = true
		}
	}
	if !okUnit {
		return fmt.Errorf("output %q uses unit %s, the largest unit that fits %.6g is %s", out, m[3], lo, wantUnit(base, int64(lo)))
	}
	verb, prec := effVerbPrec(f)
	got := num * float64(u)
	tol := printTol(verb, prec, num) * float64(u)
	if intRound {
		tol += 0.5
	}
	if got < lo-tol || got > hi+tol {
		return fmt.Errorf("output %q reads back as %.12g, true value %.12g..%.12g (tolerance %.3g)", out, got, lo, hi, tol)
	}
	return nil
}

func checkSizeExact(out string, base int, f c20Fmt, v int64) error {
	m := sizeRe.FindStringSubmatch(out)
	if m == nil {
		return fmt.Errorf("output %q is not <number>[ ]<unit>", out)
	}
	if m[4] != "" {
		return fmt.Errorf("output %q: unexpected rate suffix", out)
	}
	if (m[2] == " ") != f.space() {
		return fmt.Errorf("output %q: space between number and unit does not follow the format's space flag", out)
	}
	if want := wantUnit(base, v); m[3] != want {
		return fmt.Errorf("output %q uses unit %s, the largest unit that fits %d is %s", out, m[3], v, want)
	}
	num, err := parseNumber(m[1])
	if err != nil {
		return fmt.Errorf("output %q: %v", out, err)
	}
	u := unitValue(m[3])
	verb, prec := effVerbPrec(f)
	// exact comparison in rationals: |num*u - v| <= tol*u
	diff := new(big.Rat).SetFloat64(num)
	diff.Mul(diff, new(big.Rat).SetInt64(u))
	diff.Sub(diff, new(big.Rat).SetInt64(v))
	diff.Abs(diff)
	tol := new(big.Rat).SetFloat64(printTol(verb, prec, num))
	tol.Mul(tol, new(big.Rat).SetInt64(u))
	if diff.Cmp(tol) > 0 {
		d, _ := diff.Float64()
		tf, _ := tol.Float64()
		return fmt.Errorf("output %q reads back %.6g bytes away from the true value %d (tolerance %.3g)", out, d, v, tf)
	}
	return nil
}

// parseClock parses the output of a time style back into a duration.
func parseClock(out string, style int) (time.Duration, error) {
	if style == 0 {
		d, err := time.ParseDuration(out)
		if err != nil {
			return 0, fmt.Errorf("output %q is not a Go duration", out)
		}
		return d, nil
	}
	parts := strings.Split(out, ":")
	var nums []int64
	for _, p := range parts {
		if len(p) < 2 {
			return 0, fmt.Errorf("output %q: field %q is not zero padded", out, p)
		}
		n, err := strconv.ParseInt(p, 10, 64)
		if err != nil || n < 0 {
			return 0, fmt.Errorf("output %q is not a clock value", out)
		}
		nums = append(nums, n)
	}
	switch {
	case style == 1 && len(nums) == 3, style == 3 && len(nums) == 3:
		if nums[1] > 59 || nums[2] > 59 {
			return 0, fmt.Errorf("output %q: minutes or seconds above 59", out)
		}
		return time.Duration(nums[0])*time.Hour + time.Duration(nums[1])*time.Minute + time.Duration(nums[2])*time.Second, nil
	case style == 2 && len(nums) == 2:
		if nums[1] > 59 {
			return 0, fmt.Errorf("output %q: minutes above 59", out)
		}
		return time.Duration(nums[0])*time.Hour + time.Duration(nums[1])*time.Minute, nil
	case style == 3 && len(nums) == 2:
		if nums[0] > 59 || nums[1] > 59 {
			return 0, fmt.Errorf("output %q: minutes or seconds above 59", out)
		}
		return time.Duration(nums[0])*time.Minute + time.Duration(nums[1])*time.Second, nil
	}
	return 0, fmt.Errorf("output %q has the wrong number of fields for style %d", out, style)
}

func resolution(style int) time.Duration {
	if style == 2 {
		return time.Minute
	}
	return time.Second
}

// checkClock: the printed value must be the truncation of some duration in [lo, hi].
func checkClock(out string, style int, lo, hi time.Duration) error {
	got, err := parseClock(out, style)
	if err != nil {
		return err
	}
	res := resolution(style)
	if got < lo.Truncate(res) || got > hi.Truncate(res) {
		return fmt.Errorf("output %q reads back as %v, true value %v..%v (resolution %v)", out, got, lo, hi, res)
	}
	if style == 3 && lo >= time.Hour && strings.Count(out, ":") != 2 {
		return fmt.Errorf("output %q drops the hours of %v", out, lo)
	}
	return nil
}

func unitArg(u int) interface{} {
	switch u {
	case 1000:
		return decor.SizeB1000(0)
	case 1024:
		return decor.SizeB1024(0)
	}
	return 0
}

type constAvg struct{ v float64 }

func (a *constAvg) Add(float64)    {}
func (a *constAvg) Value() float64 { return a.v }
func (a *constAvg) Set(v float64)  { a.v = v }

type recordAvg struct {
	mu   sync.Mutex
	adds []float64
}

func (a *recordAvg) Add(v float64) {
	a.mu.Lock()
	a.adds = append(a.adds, v)
	a.mu.Unlock()
}
func (a *recordAvg) Value() float64 {
	a.mu.Lock()
	defer a.mu.Unlock()
	if len(a.adds) == 0 {
		return 0
	}
	return a.adds[len(a.adds)-1]
}
func (a *recordAvg) Set(float64) {}

var _ ewma.MovingAverage = (*recordAvg)(nil)

func c20Wrap(d decor.Decorator, wraps []string) decor.Decorator {
	id := func(s string) string { return s }
	for _, w := range wraps {
		switch w {
		case "oncomplete":
			d = decor.OnComplete(d, "done")
		case "onabort":
			d = decor.OnAbort(d, "abrt")
		case "meta":
			d = decor.Meta(d, id)
		case "oncompletemeta":
			d = decor.OnCompleteMeta(d, id)
		case "onabortmeta":
			d = decor.OnAbortMeta(d, id)
		case "ocoa":
			d = decor.OnCompleteOrOnAbort(d, "fin")
		case "ocmoam":
			d = decor.OnCompleteMetaOrOnAbortMeta(d, id)
		case "cond":
			d = decor.OnCondition(d, true)
		}
	}
	return d
}

func badText(s string) error {
	for _, bad := range []string{"NaN", "Inf", "%!", "nan", "inf"} {
		if strings.Contains(s, bad) {
			return fmt.Errorf("output %q contains %q", s, bad)
		}
	}
	return nil
}

func runC20(ci interface{}) (r Result) {
	c := ci.(*c20Case)
	defer func() {
		if p := recover(); p != nil {
			r.Err, r.Kind = fmt.Errorf("decorator panicked: %v", p), "panic"
		}
	}()
	r.Classes = append(r.Classes, "kind:"+c.Kind)
	wc := decor.WC{W: c.W, C: c.C}
	st := decor.Statistics{Current: c.Current, Total: c.Total, AvailableWidth: 80}
	fail := func(kind string, err error) Result {
		r.Err, r.Kind = err, kind
		return r
	}
	// decorated text: strip the padding WC adds
	call := func(d decor.Decorator, s decor.Statistics) (string, error) {
		str, w := d.Decor(s)
		if w != c07Width(str) {
			return "", fmt.Errorf("decorator reports width %d for %q (display width %d)", w, str, c07Width(str))
		}
		txt := strings.TrimSpace(str)
		if err := badText(txt); err != nil {
			return "", err
		}
		return txt, nil
	}
	fs := c.F.String()
	switch c.Kind {
	case "size":
		var d decor.Decorator
		v := c.Current
		if c.Which == "total" {
			d = decor.Total(unitArg(c.Unit), fs, wc)
			v = c.Total
		} else {
			d = decor.Current(unitArg(c.Unit), fs, wc)
		}
		out, err := call(d, st)
		if err != nil {
			return fail("format", err)
		}
		if c.Unit == 0 {
			if n, perr := strconv.ParseInt(strings.TrimSpace(out), 10, 64); perr != nil || n != v {
				return fail("value", fmt.Errorf("plain counter printed %q for %d", out, v))
			}
		} else if err := checkSizeExact(out, c.Unit, c.F, v); err != nil {
			return fail("value", err)
		}
		_, p := effVerbPrec(c.F)
		r.Nontrivial = v >= 1000 && (p != 0 || nearUnit(v))
		if v > 1<<53 {
			r.Classes = append(r.Classes, "value>2^53")
		}
		if nearUnit(v) {
			r.Classes = append(r.Classes, "unit-boundary")
		}
	case "pair":
		d := decor.Counters(unitArg(c.Unit), fs+" / "+fs, wc)
		out, err := call(d, st)
		if err != nil {
			return fail("format", err)
		}
		parts := strings.Split(out, " / ")
		if len(parts) != 2 {
			return fail("format", fmt.Errorf("counters output %q is not a pair", out))
		}
		for i, v := range []int64{c.Current, c.Total} {
			if c.Unit == 0 {
				if n, perr := strconv.ParseInt(strings.TrimSpace(parts[i]), 10, 64); perr != nil || n != v {
					return fail("value", fmt.Errorf("plain counter printed %q for %d", parts[i], v))
				}
			} else if err := checkSizeExact(strings.TrimSpace(parts[i]), c.Unit, c.F, v); err != nil {
				return fail("value", err)
			}
		}
		r.Nontrivial = c.Total >= 1000
	case "pct":
		d := decor.NewPercentage(fs, wc)
		out, err := call(d, st)
		if err != nil {
			return fail("format", err)
		}
		if !strings.HasSuffix(out, "%") {
			return fail("format", fmt.Errorf("percentage output %q does not end in %%", out))
		}
		body := strings.TrimSuffix(out, "%")
		if strings.HasSuffix(body, " ") != c.F.space() {
			return fail("format", fmt.Errorf("percentage output %q: space does not follow the format's space flag", out))
		}
		num, perr := parseNumber(body)
		if perr != nil {
			return fail("format", fmt.Errorf("percentage output %q: %v", out, perr))
		}
		want := new(big.Rat)
		if c.Total > 0 {
			want.SetFrac(new(big.Int).Mul(big.NewInt(100), big.NewInt(c.Current)), big.NewInt(c.Total))
		}
		verb, prec := effVerbPrec(c.F)
		diff := new(big.Rat).SetFloat64(num)
		diff.Sub(diff, want).Abs(diff)
		tol := new(big.Rat).SetFloat64(printTol(verb, prec, num) + 1e-12)
		if diff.Cmp(tol) > 0 {
			w, _ := want.Float64()
			return fail("value", fmt.Errorf("percentage output %q for current=%d total=%d, true value %.12g", out, c.Current, c.Total, w))
		}
		r.Nontrivial = c.Total > 0 && c.Current > 0 && c.Current < c.Total
		if c.Current > math.MaxInt64/100 {
			r.Classes = append(r.Classes, "current>2^64/100")
		}
	case "elapsed":
		start := time.Now().Add(-time.Duration(c.DurNs))
		d := decor.NewElapsed(decor.TimeStyle(c.Style), start, wc)
		t0 := time.Now()
		out, err := call(d, st)
		t1 := time.Now()
		if err != nil {
			return fail("format", err)
		}
		if t1.Sub(start) > time.Duration(maxDur) {
			r.Classes = append(r.Classes, "beyond-clock-range") // the clock moved the value out of the oracle's range: nothing to judge
			return r
		}
		if err := checkClock(out, c.Style, t0.Sub(start), t1.Sub(start)); err != nil {
			return fail("value", fmt.Errorf("elapsed: %v", err))
		}
		r.Nontrivial = c.DurNs >= int64(time.Minute)
		r.Classes = append(r.Classes, fmt.Sprintf("style:%d", c.Style))
	case "eta":
		d := decor.MovingAverageETA(decor.TimeStyle(c.Style), &constAvg{c.Avg}, nil, wc)
		out, err := call(d, st)
		if err != nil {
			return fail("format", err)
		}
		want := time.Duration((c.Total - c.Current) * int64(math.Round(c.Avg)))
		if err := checkClock(out, c.Style, want, want); err != nil {
			return fail("value", fmt.Errorf("ETA with %d items left at %v per item: %v", c.Total-c.Current, time.Duration(math.Round(c.Avg)), err))
		}
		r.Nontrivial = want >= time.Minute
		if want >= 24*time.Hour {
			r.Classes = append(r.Classes, "duration>=24h")
		}
		r.Classes = append(r.Classes, fmt.Sprintf("style:%d", c.Style))
	case "avgeta":
		start := time.Now().Add(-time.Duration(c.DurNs))
		d := decor.NewAverageETA(decor.TimeStyle(c.Style), start, nil, wc)
		t0 := time.Now()
		out, err := call(d, st)
		t1 := time.Now()
		if err != nil {
			return fail("format", err)
		}
		var lo, hi time.Duration
		if c.Current != 0 {
			items := c.Total - c.Current
			lo = time.Duration(items * int64(math.Round(float64(t0.Sub(start))/float64(c.Current))))
			hi = time.Duration(items * int64(math.Round(float64(t1.Sub(start))/float64(c.Current))))
		}
		if hi > time.Duration(maxDur) {
			r.Classes = append(r.Classes, "beyond-clock-range")
			return r
		}
		if err := checkClock(out, c.Style, lo, hi); err != nil {
			return fail("value", fmt.Errorf("average ETA: %v", err))
		}
		r.Nontrivial = lo >= time.Minute
	case "speed":
		d := decor.MovingAverageSpeed(unitArg(c.Unit), fs, &constAvg{c.Avg}, wc)
		out, err := call(d, st)
		if err != nil {
			return fail("format", err)
		}
		sp := 0.0
		if c.Avg != 0 {
			sp = 1e9 / c.Avg
		}
		if c.Unit == 0 {
			num, perr := parseNumber(out)
			if perr != nil {
				return fail("format", fmt.Errorf("speed output %q: %v", out, perr))
			}
			verb, prec := effVerbPrec(c.F)
			if c.F.Verb == "v" {
				verb, prec = 'g', c.F.Prec
			}
			if tol := printTol(verb, prec, num); math.Abs(num-sp) > tol {
				return fail("value", fmt.Errorf("speed output %q, true value %.12g", out, sp))
			}
		} else if err := checkSize(out, c.Unit, c.F, sp, sp, true, true); err != nil {
			return fail("value", fmt.Errorf("speed: %v", err))
		}
		r.Nontrivial = sp >= 1000
	case "avgspeed":
		start := time.Now().Add(-time.Duration(c.DurNs))
		d := decor.NewAverageSpeed(unitArg(c.Unit), fs, start, wc)
		t0 := time.Now()
		out, err := call(d, st)
		t1 := time.Now()
		if err != nil {
			return fail("format", err)
		}
		hi := float64(c.Current) / float64(t0.Sub(start)) * 1e9
		lo := float64(c.Current) / float64(t1.Sub(start)) * 1e9
		if c.Unit == 0 {
			num, perr := parseNumber(out)
			if perr != nil {
				return fail("format", fmt.Errorf("speed output %q: %v", out, perr))
			}
			verb, prec := effVerbPrec(c.F)
			if c.F.Verb == "v" {
				verb, prec = 'g', c.F.Prec
			}
			tol := printTol(verb, prec, num)
			if num < lo-tol || num > hi+tol {
				return fail("value", fmt.Errorf("average speed output %q, true value %.12g..%.12g", out, lo, hi))
			}
		} else if err := checkSize(out, c.Unit, c.F, lo, hi, true, true); err != nil {
			return fail("value", fmt.Errorf("average speed: %v", err))
		}
		r.Nontrivial = lo >= 1000
	case "ewma":
		return runC20Ewma(c, wc, st, call)
	case "freeze":
		return runC20Freeze(c, wc, st, call)
	}
	return r
}

func nearUnit(v int64) bool {
	for _, u := range []int64{1000, 1024, 1000000, 1 << 20, 1000000000, 1 << 30, 1000000000000, 1 << 40} {
		if v >= u-2 && v <= u+2 {
			return true
		}
	}
	return false
}

func median3(w [3]float64) float64 {
	s := w[:]
	t := []float64{s[0], s[1], s[2]}
	sort.Float64s(t)
	return t[1]
}

// c20Hybrid is a user-defined estimator: moving-average samples, start-time
// adjustment and shutdown notification in one decorator.
type c20Hybrid struct {
	decor.WC
	mu        sync.Mutex
	samples   []c20Sample
	adjusted  int
	shutdowns int
}

func (d *c20Hybrid) Decor(decor.Statistics) (string, int) { return d.Format("h") }
func (d *c20Hybrid) EwmaUpdate(n int64, dur time.Duration) {
	d.mu.Lock()
	d.samples = append(d.samples, c20Sample{N: n, Dur: int64(dur)})
	d.mu.Unlock()
}
func (d *c20Hybrid) AverageAdjust(time.Time) { d.mu.Lock(); d.adjusted++; d.mu.Unlock() }
func (d *c20Hybrid) OnShutdown()             { d.mu.Lock(); d.shutdowns++; d.mu.Unlock() }

func runC20Hybrid(c *c20Case, wc decor.WC) (r Result) {
	r.Classes = append(r.Classes, "kind:ewma", "avg:hybrid", "via-bar")
	h := &c20Hybrid{WC: wc.Init()}
	d := c20Wrap(h, c.Wrap)
	if len(c.Wrap) > 0 {
		r.Classes = append(r.Classes, fmt.Sprintf("wrap-depth:%d", len(c.Wrap)))
	}
	p := mpb.New(mpb.WithOutput(io.Discard))
	b := p.AddBar(0, mpb.AppendDecorators(d))
	for _, s := range c.Samples {
		b.EwmaIncrInt64(s.N, time.Duration(s.Dur))
	}
	b.DecoratorAverageAdjust(time.Now())
	_ = b.Current()
	b.Abort(true)
	p.Wait()
	h.mu.Lock()
	defer h.mu.Unlock()
	if fmt.Sprint(h.samples) != fmt.Sprint(c.Samples) {
		r.Err, r.Kind = fmt.Errorf("a decorator that is a moving-average estimator (and also adjustable and a shutdown listener) under wrappers %v received samples %v, the calls made were %v", c.Wrap, h.samples, c.Samples), "hybrid-samples"
		return r
	}
	if h.adjusted != 1 || h.shutdowns != 1 {
		r.Err, r.Kind = fmt.Errorf("hybrid decorator under wrappers %v: AverageAdjust reached it %d times (want 1), OnShutdown %d times (want 1)", c.Wrap, h.adjusted, h.shutdowns), "hybrid-interfaces"
		return r
	}
	r.Nontrivial = len(c.Samples) > 0
	return r
}

func runC20Ewma(c *c20Case, wc decor.WC, st decor.Statistics, call func(decor.Decorator, decor.Statistics) (string, error)) (r Result) {
	if c.AvgKind == "hybrid" {
		return runC20Hybrid(c, wc)
	}
	r.Classes = append(r.Classes, "kind:ewma", "ewma:"+c.Target, "avg:"+c.AvgKind)
	fail := func(kind string, err error) Result {
		r.Err, r.Kind = err, kind
		return r
	}
	if c.AvgKind == "age" {
		return runC20Age(c, wc, st, call)
	}
	rec := &recordAvg{}
	var avg ewma.MovingAverage = rec
	if c.AvgKind == "median" {
		avg = nil
		if c.Target == "speed" {
			avg = decor.NewMedian()
		}
	}
	var base decor.Decorator
	if c.Target == "eta" {
		base = decor.MovingAverageETA(decor.TimeStyle(c.Style), avg, nil, wc)
	} else {
		base = decor.MovingAverageSpeed(decor.SizeB1024(0), c.F.String(), avg, wc)
	}
	d := c20Wrap(base, c.Wrap)
	if len(c.Wrap) > 0 {
		r.Classes = append(r.Classes, fmt.Sprintf("wrap-depth:%d", len(c.Wrap)))
	}
	// reference carry rule: a sample without progress is carried into the next one
	var want []float64
	var carry int64
	zeroThenProgress := false
	pendingZero := false
	var timed []c20Sample
	for _, s := range c.Samples {
		if s.Plain {
			continue // untimed progress: no sample
		}
		timed = append(timed, s)
		if s.N <= 0 {
			carry += s.Dur
			pendingZero = true
			continue
		}
		want = append(want, float64(carry+s.Dur)/float64(s.N))
		carry = 0
		if pendingZero {
			zeroThenProgress = true
		}
		pendingZero = false
	}
	if c.ViaBar {
		r.Classes = append(r.Classes, "via-bar")
		// a second and third estimator on the same bar: every one of them gets every sample
		h1 := &c20Hybrid{WC: wc.Init()}
		h2 := &c20Hybrid{WC: wc.Init()}
		p := mpb.New(mpb.WithOutput(io.Discard))
		b := p.AddBar(0, mpb.PrependDecorators(h1), mpb.AppendDecorators(d, decor.OnComplete(h2, "ok")))
		for _, s := range c.Samples {
			if s.Plain {
				b.IncrInt64(s.N)
				r.Classes = append(r.Classes, "plain-increment-between-samples")
				continue
			}
			b.EwmaIncrInt64(s.N, time.Duration(s.Dur))
		}
		_ = b.Current() // all samples processed
		b.Abort(true)
		p.Wait()
		for i, h := range []*c20Hybrid{h1, h2} {
			h.mu.Lock()
			got := fmt.Sprint(h.samples)
			h.mu.Unlock()
			if got != fmt.Sprint(timed) {
				return fail("fan-out", fmt.Errorf("estimator %d of 3 on the bar received samples %v, the timed calls made were %v (all calls: %v)", i+2, got, timed, c.Samples))
			}
		}
	} else {
		ed, ok := unwrapAll(d).(decor.EwmaDecorator)
		if !ok {
			return fail("unwrap", fmt.Errorf("unwrapping %v does not lead to the moving-average decorator", c.Wrap))
		}
		for _, s := range timed {
			ed.EwmaUpdate(s.N, time.Duration(s.Dur))
			if c.Render {
				// a frame drawn between two samples must not disturb the estimator
				if _, err := call(d, st); err != nil {
					return fail("format", err)
				}
			}
		}
		if c.Render {
			r.Classes = append(r.Classes, "render-between-samples")
		}
	}
	last3 := [3]float64{}
	for _, v := range want {
		last3[0], last3[1], last3[2] = last3[1], last3[2], v
	}
	var value float64
	if c.AvgKind == "record" {
		rec.mu.Lock()
		got := append([]float64(nil), rec.adds...)
		rec.mu.Unlock()
		if len(got) != len(want) {
			return fail("conservation", fmt.Errorf("estimator added %d averages for %d samples with progress (samples %v)", len(got), len(want), c.Samples))
		}
		var sumGot, sumWant float64
		k := 0
		for _, s := range timed {
			if s.N <= 0 {
				continue
			}
			v := got[k]
			if math.IsNaN(v) || math.IsInf(v, 0) {
				return fail("conservation", fmt.Errorf("estimator was fed %v", v))
			}
			if math.Abs(v-want[k]) > 1e-9*math.Abs(want[k])+1e-12 {
				return fail("conservation", fmt.Errorf("sample %d: estimator was fed %g ns per item, time carried so far gives %g", k, v, want[k]))
			}
			sumGot += v * float64(s.N)
			sumWant += want[k] * float64(s.N)
			k++
		}
		if math.Abs(sumGot-sumWant) > 1e-9*math.Abs(sumWant)+1e-6 {
			return fail("conservation", fmt.Errorf("time is not conserved: estimator saw %g ns in total, samples carry %g ns", sumGot, sumWant))
		}
		if len(want) > 0 {
			value = want[len(want)-1]
		}
	} else {
		value = median3(last3)
	}
	// the printed value follows the average
	out, err := call(d, st)
	if err != nil {
		return fail("format", err)
	}
	if c.Target == "eta" {
		rem := time.Duration((c.Total - c.Current) * int64(math.Round(value)))
		if rem >= 0 && rem < time.Duration(maxDur) {
			if err := checkClock(out, c.Style, rem, rem); err != nil {
				return fail("value", fmt.Errorf("ETA after samples %v: %v", c.Samples, err))
			}
		}
	} else {
		sp := 0.0
		if value != 0 {
			sp = 1e9 / value
		}
		if sp < 1e18 {
			if err := checkSize(out, 1024, c.F, sp, sp, true, true); err != nil {
				return fail("value", fmt.Errorf("speed after samples %v: %v", c.Samples, err))
			}
		}
	}
	if zeroThenProgress {
		r.Classes = append(r.Classes, "zero-then-progress")
	}
	r.Nontrivial = zeroThenProgress
	return r
}

// runC20Age: decor.EwmaETA / decor.EwmaSpeed built from an age. Whatever the
// weights, an exponentially weighted moving average of the per-item durations is
// a convex combination of them: the printed ETA lies between remaining*min and
// remaining*max of the per-item durations seen so far (or is zero while the
// average warms up), the printed speed between 1/max and 1/min (or zero).
func runC20Age(c *c20Case, wc decor.WC, st decor.Statistics, call func(decor.Decorator, decor.Statistics) (string, error)) (r Result) {
	r.Classes = append(r.Classes, "kind:ewma", "ewma:"+c.Target, "avg:age", fmt.Sprintf("age:%g", c.Age))
	fail := func(kind string, err error) Result {
		r.Err, r.Kind = err, kind
		return r
	}
	var base decor.Decorator
	if c.Target == "eta" {
		base = decor.EwmaETA(decor.TimeStyle(c.Style), c.Age, wc)
	} else {
		base = decor.EwmaSpeed(decor.SizeB1024(0), c.F.String(), c.Age, wc)
	}
	d := c20Wrap(base, c.Wrap)
	ed, ok := unwrapAll(d).(decor.EwmaDecorator)
	if !ok {
		return fail("unwrap", fmt.Errorf("unwrapping %v does not lead to the moving-average decorator", c.Wrap))
	}
	lo, hi := math.Inf(1), 0.0
	check := func(k int) error {
		out, err := call(d, st)
		if err != nil {
			return err
		}
		if k == 0 {
			lo, hi = 0, 0
		}
		if c.Target == "eta" {
			rem := float64(c.Total - c.Current)
			if rem*hi*1.000001 >= float64(maxDur) {
				return nil
			}
			if err := checkClock(out, c.Style, 0, time.Duration(rem*hi*1.000001)+time.Second); err != nil {
				return fmt.Errorf("ETA (age %g) after %d samples with %.0f..%.0f ns per item: %v", c.Age, k, lo, hi, err)
			}
			if got, perr := parseClock(out, c.Style); perr == nil && got != 0 && got < time.Duration(rem*lo*0.999999).Truncate(resolution(c.Style))-time.Second {
				return fmt.Errorf("ETA (age %g) after %d samples with %.0f..%.0f ns per item and %d items left: %q is below every sample", c.Age, k, lo, hi, c.Total-c.Current, out)
			}
			return nil
		}
		splo, sphi := 0.0, 0.0
		if hi > 0 {
			sphi = 1e9 / lo * 1.000001
			splo = 1e9 / hi * 0.999999
		}
		if err := checkSize(out, 1024, c.F, 0, sphi, true, true); err != nil {
			return fmt.Errorf("speed (age %g) after %d samples with %.0f..%.0f ns per item: %v", c.Age, k, lo, hi, err)
		}
		_ = splo
		return nil
	}
	for k, s := range c.Samples {
		per := float64(s.Dur) / float64(s.N)
		if per < lo {
			lo = per
		}
		if per > hi {
			hi = per
		}
		ed.EwmaUpdate(s.N, time.Duration(s.Dur))
		if c.Render || k == len(c.Samples)-1 {
			if err := check(k + 1); err != nil {
				return fail("value", err)
			}
		}
	}
	r.Nontrivial = len(c.Samples) > 11
	if r.Nontrivial {
		r.Classes = append(r.Classes, "age:past-warm-up")
	}
	return r
}

func unwrapAll(d decor.Decorator) decor.Decorator {
	for {
		w, ok := d.(decor.Wrapper)
		if !ok {
			return d
		}
		d = w.Unwrap()
	}
}

func runC20Freeze(c *c20Case, wc decor.WC, st decor.Statistics, call func(decor.Decorator, decor.Statistics) (string, error)) (r Result) {
	r.Classes = append(r.Classes, "kind:freeze", "freeze:"+c.Target)
	fail := func(kind string, err error) Result {
		r.Err, r.Kind = err, kind
		return r
	}
	// start so that a second boundary lies 4 ms ahead
	start := time.Now().Add(-time.Duration(c.DurNs) + 4*time.Millisecond)
	var d, twin decor.Decorator
	if c.Target == "elapsed" {
		d = decor.NewElapsed(decor.ET_STYLE_GO, start, wc)
		twin = decor.NewElapsed(decor.ET_STYLE_GO, start, wc)
	} else {
		d = decor.NewAverageSpeed(decor.SizeB1024(0), c.F.String(), start, wc)
		twin = decor.NewAverageSpeed(decor.SizeB1024(0), c.F.String(), start, wc)
	}
	running := st
	s1, err := call(d, running)
	if err != nil {
		return fail("format", err)
	}
	time.Sleep(8 * time.Millisecond)
	done := st
	done.Completed = true
	done.Current = done.Total
	s2, err := call(d, done)
	if err != nil {
		return fail("format", err)
	}
	s3, err := call(d, done)
	if err != nil {
		return fail("format", err)
	}
	t1, err := call(twin, running)
	if err != nil {
		return fail("format", err)
	}
	if s2 != s1 || s3 != s1 {
		return fail("freeze", fmt.Errorf("%s decorator printed %q while running, then %q and %q for the completed bar", c.Target, s1, s2, s3))
	}
	r.Nontrivial = t1 != s1 // the un-frozen twin did move on
	if r.Nontrivial {
		r.Classes = append(r.Classes, "twin-moved")
	}
	return r
}
