package props

import (
	"fmt"
	"strings"
	"time"

	"pgregory.net/rapid"
	"verif/harness/engine"
	"verif/harness/vstat"
)

// C16 — no goroutine outlives its container.
//
// Scenarios of every class used by the other checks (concurrent clients, cancel
// and Shutdown, render faults, auto refresh with early refresh, pop mode, queued
// bars, n>q, listeners, notifier) are run 1-4 times in a row in one process;
// after Wait has returned and the notifier has been read, the goroutine dump is
// polled: a goroutine with a library frame (or created by library code) that is
// still there, blocked, with an identical stack over the stability window, can
// only be woken by input that will never come — a leak. Goroutines that are
// still runnable keep the poll going (bounded, then inconclusive).

func init() {
	register(&Prop{ID: "C16", Gen: genC16, New: func() interface{} { return new(engine.Scenario) }, Run: runC16, Journal: true})
}

func genC16(t *rapid.T) interface{} {
	excludedKnown = 0
	var sc *engine.Scenario
	switch rapid.IntRange(0, 3).Draw(t, "regime") {
	case 0:
		p := profC01
		p.CancelIn = 30
		p.Listeners = 30
		sc = genConcurrent(t, &p)
	case 1:
		sc = genC15(t).(*engine.Scenario)
		sc.Late = nil
	case 2:
		p := profC14Seq
		p.Cancel = 50
		sc = genScenario(t, &p)
		if sc.Cfg.Refresh == "manual" {
			excludedKnown += int64(repairQueue(sc))
		}
	default:
		p := profC03
		p.Notifier = 50
		p.Listeners = 30
		sc = genScenario(t, &p)
	}
	if pct(t, 20, "narrow") {
		// a container narrower than its decorators: most of them are cut off
		sc.Cfg.Width = rapid.IntRange(1, 12).Draw(t, "narrowwidth")
		sc.Cfg.PtyRows, sc.Cfg.PtyCols = 0, 0
	}
	sc.Repeat = rapid.IntRange(1, 4).Draw(t, "repeat")
	vstat.Excluded(excludedKnown)
	return sc
}

func runC16(ci interface{}) Result {
	sc := ci.(*engine.Scenario)
	var r Result
	n := sc.Repeat
	if n < 1 {
		n = 1
	}
	var tr *engine.Trace
	for i := 0; i < n; i++ {
		tr = engine.Run(sc, engine.Options{LeakCheck: i == n-1, LeakStable: 400 * time.Millisecond})
		if tr.Inconclusive != "" {
			r.Inconclusive = true
			return r
		}
		if tr.Hang != nil {
			vstat.Class("hang-left-to-C01", 1)
			dumpHang(sc, tr)
			// a hung run leaves goroutines behind by definition: the process is no
			// longer clean for leak accounting
			r.Fatal = false
			return r
		}
	}
	r.Classes = append(append(r.Classes, "refresh:"+sc.Cfg.Refresh), featureClasses(sc)...)
	if tr.LeakUndecided {
		r.Inconclusive = true
		vstat.Note("leak check undecided: goroutines still runnable")
		return r
	}
	if len(tr.Leaks) > 0 {
		var where []string
		for _, g := range tr.Leaks {
			where = append(where, "["+g.State+"] "+g.Stack)
		}
		r.Err = fmt.Errorf("%d goroutine(s) of the library are still there after Wait returned (%d containers in a row): %s", len(tr.Leaks), n, strings.Join(where, " || "))
		r.Kind = "leak"
		r.Fatal = true // the leftovers would be blamed on the next case too
		return r
	}
	fault := false
	for _, e := range tr.Events {
		if strings.HasPrefix(e.Point, "client.") && strings.HasSuffix(e.Point, "err") {
			fault = true
		}
	}
	if tr.OutputErrs > 0 {
		fault = true
	}
	auto := sc.Cfg.Refresh == "autort" || sc.Cfg.Refresh == "autoinj"
	if fault {
		r.Classes = append(r.Classes, "render-fault")
	}
	if tr.CancelSeq != 0 {
		r.Classes = append(r.Classes, "cancelled")
	}
	if auto {
		r.Classes = append(r.Classes, "auto-refresh")
	}
	if sc.Cfg.Notifier {
		r.Classes = append(r.Classes, "notifier")
	}
	if n >= 2 {
		r.Classes = append(r.Classes, "repeated")
	}
	if hasPar(sc) {
		r.Classes = append(r.Classes, "concurrent-clients")
	}
	if sc.Cfg.Width > 0 {
		r.Classes = append(r.Classes, "narrow-container")
	}
	r.Nontrivial = auto || fault || tr.CancelSeq != 0 || sc.Cfg.Notifier
	return r
}
