package props

import (
	"errors"
	"fmt"
	"strings"

	mpb "github.com/vbauerster/mpb/v8"
	"pgregory.net/rapid"
	"verif/harness/engine"
	"verif/harness/vstat"
)

// C15 — a render error shuts the container down cleanly.
//
// Fault plan: the k-th Fill of one bar, the k-th call of one bar's extender, the
// k-th Write of the output (as an error or as a short write) or the k-th
// terminal size query (pty) fails, k from 1 to beyond the run; small k for every
// site kind is enumerated by the generator's weighting (fault_enumeration), the
// rest is random. Other bars carry synchronised decorators in every layout, so
// the error is handled while they are half-way through a width exchange (also
// with directed holds). Oracle: Wait returns (hang verdict), the injected
// error's text is in the debug output exactly once and nothing else is, no
// output follows the failing cycle, every bar is stopped, later calls see a
// finished container.

func init() {
	register(&Prop{ID: "C15", Gen: genC15, New: func() interface{} { return new(engine.Scenario) }, Run: runC15, Journal: true})
}

var profC15 = Profile{
	MaxBars: 6, MinBars: 1, MaxSteps: 30, Refresh: []string{"manual", "autoinj", "autort"}, QLens: []int{-1, -1, 0, -2},
	Pop: 20, Queue: 10, LateSuccW: 1, Prio: true, Ext: 20, Text: 1, Rm: 20, NoPop: 15, AbortW: 1, TicksW: 12,
	SyncDecors: 2, PlainDecors: 1, Wraps: true, NoDecorPct: 25, Notifier: 40, Listeners: 20,
	Fillers: []string{"tag", "bar"}, LateAdd: true, Delay: 12,
}

func genC15(t *rapid.T) interface{} {
	excludedKnown = 0
	sc := genScenario(t, &profC15)
	if sc.Cfg.Refresh == "manual" {
		excludedKnown += int64(repairQueue(sc))
	}
	nb := len(sc.Bars)
	// the fault
	k := rapid.OneOf(rapid.IntRange(1, 4), rapid.IntRange(1, 12)).Draw(t, "k")
	switch rapid.IntRange(0, 4).Draw(t, "site") {
	case 0, 1:
		fb := rapid.IntRange(0, nb-1).Draw(t, "fbar")
		sc.Bars[fb].FillErrAt = k
		if sc.Cfg.Delay && rapid.Bool().Draw(t, "faultreleases") {
			// the render delay ends at the very moment the fault occurs (closing the
			// channel is the user's business, from any goroutine): the container must
			// not come back to life through the release
			sc.Bars[fb].FillErrRelease = true
		}
		if nb >= 2 && rapid.IntRange(0, 3).Draw(t, "secondfault") == 0 {
			// a second bar fails on the same call number: with both added before the
			// same frame, two errors arise in one render cycle
			sc.Bars[rapid.IntRange(0, nb-1).Draw(t, "fbar2")].FillErrAt = k
		}
	case 2:
		sc.Bars[rapid.IntRange(0, nb-1).Draw(t, "ebar")].ExtErrAt = k
		if nb >= 2 && rapid.IntRange(0, 3).Draw(t, "secondextfault") == 0 {
			sc.Bars[rapid.IntRange(0, nb-1).Draw(t, "ebar2")].ExtErrAt = k
		}
	case 3:
		sc.OutErrAt = k
		sc.OutShort = rapid.Bool().Draw(t, "short")
	default:
		sc.Cfg.PtyRows = rapid.IntRange(4, 12).Draw(t, "ptyrows")
		sc.Cfg.PtyCols = rapid.IntRange(60, 100).Draw(t, "ptycols")
		sc.SizeErrAt = k
	}
	if rapid.IntRange(0, 9).Draw(t, "nildebug") == 0 {
		sc.Cfg.DebugNil = true
	} else if rapid.IntRange(0, 2).Draw(t, "slowdebug") == 0 {
		sc.Cfg.DebugSlowUs = rapid.IntRange(200, 3000).Draw(t, "slowdebugus")
	}
	// slow decorators and directed holds widen the window between "some bars
	// have sent their width" and "the error is seen"
	if rapid.Bool().Draw(t, "slow") {
		for bi := range sc.Bars {
			for di := range sc.Bars[bi].Decors {
				if rapid.IntRange(0, 3).Draw(t, "slowd") == 0 {
					sc.Bars[bi].Decors[di].SlowUs = rapid.IntRange(50, 1500).Draw(t, "slowus")
				}
			}
		}
	}
	if rapid.Bool().Draw(t, "hold") {
		h := rapid.SampledFrom([]engine.Hold{
			{A: "wc.sent", B: "flush.bar", KB: 1, HoldMs: 4},
			{A: "bar.render", B: "flush.bar", KB: 1, HoldMs: 4},
			{A: "wd.collected", B: "flush.bar", KB: 1, HoldMs: 4},
			{A: "flush.bar", B: "wc.sent", KB: 1, HoldMs: 3},
		}).Draw(t, "holdt")
		h.KA = rapid.IntRange(0, 5).Draw(t, "holdka")
		sc.Perturb.Holds = append(sc.Perturb.Holds, h)
	}
	sc.Perturb.Level = rapid.IntRange(0, 2).Draw(t, "plevel")
	sc.Perturb.Seed = uint64(rapid.Uint32().Draw(t, "pseed"))
	// late calls
	sc.Late = []engine.Step{{Op: "add", Bar: nb - 1}, {Op: "write", Text: "wL.0:late\n"}, {Op: "incr", Bar: 0, N: 1}, {Op: "get", Bar: 0}}
	vstat.Excluded(excludedKnown)
	return sc
}

func runC15(ci interface{}) Result {
	sc := ci.(*engine.Scenario)
	var r Result
	tr := engine.Run(sc, engine.Options{})
	if tr.Inconclusive != "" {
		r.Inconclusive = true
		vstat.Note("inconclusive: " + tr.Inconclusive)
		return r
	}
	r.Classes = append(append(r.Classes, "refresh:"+sc.Cfg.Refresh), featureClasses(sc)...)
	// did a fault fire, and which
	var faultSeq int64
	var faultText, site string
	for _, e := range tr.Events {
		if faultSeq != 0 {
			break
		}
		switch e.Point {
		case "client.fillerr":
			faultSeq, faultText, site = e.Seq, fmt.Sprintf("%v bar=%d", engine.ErrInjectedFill, e.N), "filler"
		case "client.exterr":
			faultSeq, faultText, site = e.Seq, fmt.Sprintf("%v bar=%d", engine.ErrInjectedExt, e.N), "extender"
		case "client.sizeerr":
			faultSeq, faultText, site = e.Seq, engine.ErrInjectedSize.Error(), "termsize"
		}
	}
	if tr.OutputErrs > 0 && faultSeq == 0 {
		faultText, site = engine.ErrInjectedOutput.Error(), "output"
		if sc.OutErrAt-1 < len(tr.Chunks) {
			faultSeq = tr.Chunks[sc.OutErrAt-1].Seq
		}
	}
	fired := site != ""
	if tr.Hang != nil {
		dumpHang(sc, tr)
		if !fired {
			vstat.Class("hang-left-to-C01", 1)
			return r
		}
		r.Err = fmt.Errorf("%s after a %s error (%s): Wait does not return; goroutines: %v", tr.Hang.Kind, site, tr.Hang.AtStep, tr.Hang.Where)
		r.Kind = tr.Hang.Kind
		return r
	}
	if tr.WaitSeq == 0 {
		r.Inconclusive = true
		return r
	}
	debug := tr.Debug
	if tr.DebugAtWait != tr.Debug {
		r.Err, r.Kind = fmt.Errorf("when Wait returned the debug output held %q, later %q: the error was reported after Wait had returned", tr.DebugAtWait, tr.Debug), "report-after-wait"
		return r
	}
	if sc.Cfg.DebugSlowUs > 0 && fired {
		r.Classes = append(r.Classes, "slow-debug-output")
	}
	if !fired {
		if strings.TrimSpace(debug) != "" {
			r.Err, r.Kind = fmt.Errorf("no fault fired but the debug output holds %q", debug), "debug"
			return r
		}
		return r
	}
	r.Classes = append(r.Classes, "fault:"+site)
	nfired := 0
	for _, e := range tr.Events {
		if e.Point == "client.fillerr" || e.Point == "client.exterr" {
			nfired++
		}
	}
	if nfired >= 2 {
		r.Classes = append(r.Classes, "two-faults-fired")
	}
	if sc.Cfg.Delay {
		r.Classes = append(r.Classes, "fault-with-render-delay")
		for _, b := range sc.Bars {
			if b.FillErrRelease && b.FillErrAt > 0 && site == "filler" {
				r.Classes = append(r.Classes, "fault-ends-render-delay")
				break
			}
		}
	}
	// exactly once, and nothing else. Two faults of the same cycle (a second bar
	// failing too) may each be the one reported.
	lines := strings.Split(strings.TrimSuffix(debug, "\n"), "\n")
	if sc.Cfg.DebugNil {
		// WithDebugOutput(nil): no report to look at; everything else still applies
		r.Classes = append(r.Classes, "no-debug-output")
		lines = []string{"verif: injected (not recorded)"}
		debug = lines[0]
	}
	if debug == "" || len(lines) != 1 {
		r.Err, r.Kind = fmt.Errorf("after a %s error the debug output holds %d lines, want exactly the error once: %q", site, len(lines), debug), "debug-count"
		if debug == "" {
			r.Err = fmt.Errorf("after a %s error (%q) the debug output is empty", site, faultText)
		}
		return r
	}
	if !strings.Contains(lines[0], "verif: injected") {
		r.Err, r.Kind = fmt.Errorf("debug output %q is not the injected error %q", lines[0], faultText), "debug-text"
		return r
	}
	// no output after the failing cycle
	if site == "output" {
		if n := len(tr.Chunks); n > sc.OutErrAt {
			r.Err, r.Kind = fmt.Errorf("the output writer failed on call %d but received %d calls", sc.OutErrAt, n), "frame-after-error"
			return r
		}
	} else {
		for k, c := range tr.Chunks {
			if c.Seq > faultSeq {
				r.Err, r.Kind = fmt.Errorf("chunk %d was written after the %s error: %q", k, site, c.Data), "frame-after-error"
				return r
			}
		}
	}
	for _, g := range tr.Final {
		if g.Running {
			r.Err, r.Kind = fmt.Errorf("bar %d is still running after the container shut down on a %s error", g.Bar, site), "running"
			return r
		}
		if g.Completed == g.Aborted {
			r.Err, r.Kind = fmt.Errorf("bar %d after Wait: completed=%v aborted=%v", g.Bar, g.Completed, g.Aborted), "state"
			return r
		}
	}
	if len(tr.BarWaitStuck) > 0 {
		r.Err, r.Kind = fmt.Errorf("Bar.Wait of bars %v does not return after the error shutdown", tr.BarWaitStuck), "barwait"
		return r
	}
	for _, a := range tr.LateAdds {
		if !errors.Is(a.Err, mpb.ErrDone) {
			r.Err, r.Kind = fmt.Errorf("Add after the error shutdown returned %v, want ErrDone", a.Err), "late-add"
			return r
		}
	}
	// the container is in a render cycle when the fault fires and serves nothing
	// else until that cycle is over; after it, it is shutting down: a Write that
	// starts after the fault cannot be accepted any more (accepted text would
	// never be drawn)
	for _, w := range tr.Writes {
		if faultSeq != 0 && w.InvSeq > faultSeq && (w.N != 0 || !errors.Is(w.Err, mpb.ErrDone)) && len(w.Text) > 0 {
			r.Err, r.Kind = fmt.Errorf("Write(%q) started after the %s error had occurred and returned (%d, %v), want (0, ErrDone)", w.Text, site, w.N, w.Err), "write-after-error"
			return r
		}
		if faultSeq != 0 && w.InvSeq > faultSeq {
			r.Classes = append(r.Classes, "write-after-error")
		}
	}
	for _, w := range tr.LateWrites {
		if w.N != 0 || !errors.Is(w.Err, mpb.ErrDone) {
			r.Err, r.Kind = fmt.Errorf("Write after the error shutdown returned (%d, %v), want (0, ErrDone)", w.N, w.Err), "late-write"
			return r
		}
	}
	if sc.Cfg.Notifier && len(tr.Notified) != 1 {
		r.Err, r.Kind = fmt.Errorf("shutdown notifier delivered %d values after the error shutdown, want 1", len(tr.Notified)), "notifier-count"
		return r
	}
	// how many other bars share a sync column
	sb := syncBars(sc, tr.Added)
	if sb >= 2 {
		r.Classes = append(r.Classes, "others-sync")
	}
	if len(sc.Perturb.Holds) > 0 {
		r.Classes = append(r.Classes, "hold")
	}
	r.Nontrivial = sb >= 2
	return r
}
