package props

import (
	"fmt"

	"pgregory.net/rapid"
	"verif/harness/engine"
	"verif/harness/vstat"
)

// C17 — a bar queued after another always gets its turn.

func init() {
	register(&Prop{ID: "C17", Gen: genC17, New: func() interface{} { return new(engine.Scenario) }, Run: runC17, Journal: true})
}

var profC17 = Profile{
	MaxBars: 6, MinBars: 2, MaxSteps: 40, Refresh: []string{"manual", "manual", "autoinj"}, QLens: []int{-1, -1, 0, 1},
	Pop: 25, Queue: 70, LateSuccW: 3, Prio: true, Ext: 10, Rm: 25, NoPop: 15, AbortW: 3, TicksW: 10,
	Fillers: []string{"bar", "tag"}, LateAdd: true, Epilogues: []string{"complete", "mixed"}, SyncDecors: 1, PlainDecors: 1, Wraps: true, AddTick: 25,
}

// profC17Conc: several clients; one of them creates the bars (successors
// included) while the others finish predecessors and request frames.
var profC17Conc = ConcProfile{
	Profile: Profile{
		MaxBars: 7, MinBars: 2, Refresh: []string{"autort", "autoinj", "autoinj"}, QLens: []int{-1, -1, 0, 1},
		Pop: 25, Queue: 65, Prio: true, Rm: 30, NoPop: 15, AbortW: 3,
		SyncDecors: 1, PlainDecors: 1, Wraps: true, Fillers: []string{"bar", "tag"},
	},
	MaxBlocks: 3, MaxBlockOps: 12, Pars: 2, PerturbMax: 2, HoldPct: 30, SyncPct: 40,
}

func genC17(t *rapid.T) interface{} {
	excludedKnown = 0
	if rapid.IntRange(0, 3).Draw(t, "concurrent") == 0 {
		sc := genConcurrent(t, &profC17Conc)
		vstat.Excluded(excludedKnown)
		return sc
	}
	sc := genScenario(t, &profC17)
	if sc.Cfg.Refresh == "manual" {
		excludedKnown += int64(repairQueue(sc))
	}
	vstat.Excluded(excludedKnown)
	return sc
}

// orderValid checks that the bars of a frame appear in non-decreasing model
// priority (ties in any order).
func orderValid(order []int, prio map[int]int) error {
	for i := 1; i < len(order); i++ {
		pa, oka := prio[order[i-1]]
		pb, okb := prio[order[i]]
		if !oka || !okb {
			return fmt.Errorf("bar without model priority in %v", order)
		}
		if pa > pb {
			return fmt.Errorf("bar %d (priority %d) is drawn above bar %d (priority %d)", order[i-1], pa, order[i], pb)
		}
	}
	return nil
}

func runC17(ci interface{}) Result {
	sc := ci.(*engine.Scenario)
	var r Result
	tr := engine.Run(sc, engine.Options{})
	if tr.Inconclusive != "" {
		r.Inconclusive = true
		return r
	}
	r.Classes = append(append(r.Classes, "refresh:"+sc.Cfg.Refresh), featureClasses(sc)...)
	nsucc := map[int]int{}
	chain := 0
	for i, b := range sc.Bars {
		if b.QueueAfter >= 0 && tr.Added[i] {
			nsucc[b.QueueAfter]++
			d := 1
			for a := b.QueueAfter; a >= 0 && sc.Bars[a].QueueAfter >= 0; a = sc.Bars[a].QueueAfter {
				d++
			}
			if d+1 > chain {
				chain = d + 1
			}
		}
	}
	if len(nsucc) == 0 {
		return r
	}
	r.Classes = append(r.Classes, "queued")
	if tr.Hang != nil {
		r.Err = fmt.Errorf("%s with bars queued behind others (at %s): Wait does not return; goroutines %v", tr.Hang.Kind, tr.Hang.AtStep, tr.Hang.Where)
		r.Kind = tr.Hang.Kind
		return r
	}
	frames := tr.Frames()
	if hasPar(sc) {
		return runC17Conc(sc, tr, r)
	}
	sim := engine.Simulate(sc)
	// sequence number at the end of each bar's add step
	addSeq := map[int]int64{}
	for _, a := range tr.Adds {
		if a.Err == nil {
			addSeq[a.Bar] = a.RetSeq
		}
	}
	var renderEnds []int64
	for _, e := range tr.Events {
		if e.Point == "render.end" {
			renderEnds = append(renderEnds, e.Seq)
		}
	}
	lateCreated := false
	// a successor created once its predecessor has finished may come too late for
	// the hand-over: it then comes in at once. In manual refresh the model knows
	// which ones do; otherwise (frames not clocked by the program) any successor
	// whose predecessor had finished by program order may be one.
	mayBeLate := predFinishedAtAdd(sc)
	if sim.OK {
		mayBeLate = map[int]bool{}
		for _, s := range sim.LateSucc {
			mayBeLate[s] = true
		}
	}
	for s, b := range sc.Bars {
		p := b.QueueAfter
		if p < 0 || !tr.Added[s] || !tr.Added[p] {
			continue
		}
		// a predecessor that was moved to the top by pop-completed mode before the
		// bar was created stays on screen: its rows persist, it is no longer a bar
		// of the container
		predPopped := sc.Cfg.Pop && !sc.Bars[p].NoPop && mayBeLate[s]
		firstS, lastP := -1, -1
		for k := range frames {
			f := &frames[k]
			hp, hs := f.Count(p) > 0, f.Count(s) > 0
			if hp && hs && !predPopped {
				r.Err, r.Kind = fmt.Errorf("frame %d shows bar %d together with its predecessor %d: %q", k, s, p, f.Raw), "together"
				return r
			}
			if hp {
				lastP = k
			}
			if hs && firstS < 0 {
				firstS = k
			}
		}
		if firstS >= 0 && lastP >= 0 {
			if firstS < lastP {
				r.Err, r.Kind = fmt.Errorf("bar %d is displayed (frame %d) before its predecessor %d was last displayed (frame %d)", s, firstS, p, lastP), "early"
				return r
			}
			if firstS != lastP+1 && tr.PtyStream == nil && !mayBeLate[s] {
				// only frames that were written count; an empty frame writes nothing
				r.Err, r.Kind = fmt.Errorf("bar %d first displayed in frame %d, predecessor %d last displayed in frame %d: not the following frame", s, firstS, p, lastP), "gap"
				return r
			}
		}
		if mayBeLate[s] && sim.OK && tr.CancelSeq == 0 {
			// created after the hand-over: displayed from the first frame drawn after
			// its creation
			for k := range frames {
				if frames[k].Seq > addSeq[s] && addSeq[s] > 0 {
					if (firstS < 0 || firstS > k) && len(sim.Frames) == len(frames) && !sim.Frames[k].Ambiguous && containsInt(sim.Frames[k].Visible, s) {
						r.Err, r.Kind = fmt.Errorf("bar %d was created after its predecessor %d had left; the first frame drawn after its creation returned is frame %d, but it is first displayed in frame %d", s, p, k, firstS), "late-not-at-once"
						return r
					}
					break
				}
			}
		}
		if firstS < 0 {
			// never displayed: count the render cycles that ran after both the
			// successor existed and the predecessor had been drawn for the last time
			// the successor's turn is due once the predecessor was drawn in a
			// terminal state twice (its second terminal frame hands over)
			enable := addSeq[s]
			termFrames := 0
			predDone := false
			for k := range frames {
				if row := frames[k].BarRow(p); row != nil && row.Flag != "r" {
					termFrames++
					if termFrames == 2 {
						predDone = true
						if frames[k].Seq > enable {
							enable = frames[k].Seq
						}
					}
				}
			}
			predGone := predDone
			cycles := 0
			for _, e := range renderEnds {
				if e > enable && (tr.CancelSeq == 0 || e < tr.CancelSeq) {
					cycles++
				}
			}
			if predDone && predGone && cycles >= 4 && tr.CancelSeq == 0 {
				r.Err, r.Kind = fmt.Errorf("bar %d queued after bar %d is never displayed although %d render cycles ran after its turn came", s, p, cycles), "never-displayed"
				return r
			}
		}
		if addSeq[s] > 0 && lastP >= 0 {
			for _, g := range tr.Gets {
				_ = g
			}
		}
	}
	// position: with the exact model, every frame's order must be valid under
	// the model priorities (the successor carries the predecessor's priority)
	if sim.OK && len(sim.Frames) == len(frames) && sc.Cfg.Width == 0 {
		r.Classes = append(r.Classes, "exact-model")
		for k := range frames {
			if sim.Frames[k].Unordered {
				continue
			}
			if err := orderValid(frames[k].BarOrder(), sim.Frames[k].Prio); err != nil {
				r.Err, r.Kind = fmt.Errorf("frame %d: %v (successors take the predecessor's place)", k, err), "position"
				return r
			}
		}
	}
	latePer := map[int]int{}
	for _, s := range sim.LateSucc {
		lateCreated = true
		latePer[sc.Bars[s].QueueAfter]++
	}
	if sim.OK && lateCreated {
		r.Classes = append(r.Classes, "late-successor")
		if len(sim.Replaced) > 0 {
			r.Classes = append(r.Classes, "late-successor-replaces-displayed-predecessor")
		}
		for _, n := range latePer {
			if n >= 2 {
				r.Classes = append(r.Classes, "late-successors>=2-same-predecessor")
				break
			}
		}
	}
	multi := false
	for _, n := range nsucc {
		if n >= 2 {
			multi = true
		}
	}
	// successor created after the predecessor finished (by program order)
	afterFinish := false
	if sim.OK {
		afterFinish = succAfterFinish(sc)
	}
	if afterFinish {
		r.Classes = append(r.Classes, "successor-after-predecessor-finished")
	}
	if multi {
		r.Classes = append(r.Classes, "multi-successor")
	}
	if chain >= 3 {
		r.Classes = append(r.Classes, "chain>=3")
	}
	r.Nontrivial = afterFinish || multi || chain >= 3 || lateCreated
	return r
}

// predFinishedAtAdd: successors whose predecessor had reached a terminal state
// when they were added (program order).
func predFinishedAtAdd(sc *engine.Scenario) map[int]bool {
	out := map[int]bool{}
	ms := make([]*engine.MBar, len(sc.Bars))
	for i := range sc.Steps {
		st := &sc.Steps[i]
		if st.Bar < 0 || st.Bar >= len(ms) || len(st.Par) > 0 {
			continue
		}
		if st.Op == "add" {
			if ms[st.Bar] == nil {
				ms[st.Bar] = engine.NewMBar(sc.Bars[st.Bar].Total)
				if a := sc.Bars[st.Bar].QueueAfter; a >= 0 && ms[a] != nil && ms[a].Terminal() {
					out[st.Bar] = true
				}
			}
			continue
		}
		if ms[st.Bar] != nil && !ms[st.Bar].Terminal() {
			ms[st.Bar].Apply(st)
		}
	}
	return out
}

// poppedDespiteSuccessor: finished bars that have successors and may all the
// same have been moved to the top by pop-completed mode: every one of their
// successors was created after they had finished (program order), so none may
// have been waiting when the bar went through its hand-over frame. Whether it
// was is a matter of frames the program does not clock (auto refresh).
func poppedDespiteSuccessor(sc *engine.Scenario) map[int]bool {
	out := map[int]bool{}
	if !sc.Cfg.Pop {
		return out
	}
	late := predFinishedAtAdd(sc)
	added := map[int]bool{}
	for _, st := range sc.Steps {
		if st.Op == "add" {
			added[st.Bar] = true
		}
	}
	timely := map[int]bool{}
	for j, b := range sc.Bars {
		if b.QueueAfter >= 0 && b.QueueAfter < len(sc.Bars) && added[j] {
			if late[j] {
				out[b.QueueAfter] = true
			} else {
				timely[b.QueueAfter] = true
			}
		}
	}
	for i := range out {
		if timely[i] || sc.Bars[i].NoPop {
			delete(out, i)
		}
	}
	return out
}

// succAfterFinish: some successor is added after its predecessor reached a
// terminal state (generator-side model, program order).
func succAfterFinish(sc *engine.Scenario) bool {
	ms := make([]*engine.MBar, len(sc.Bars))
	for i := range sc.Steps {
		st := &sc.Steps[i]
		if st.Bar < 0 || st.Bar >= len(ms) {
			continue
		}
		if st.Op == "add" {
			ms[st.Bar] = engine.NewMBar(sc.Bars[st.Bar].Total)
			if a := sc.Bars[st.Bar].QueueAfter; a >= 0 && ms[a] != nil && ms[a].Terminal() {
				return true
			}
			continue
		}
		if ms[st.Bar] != nil && !ms[st.Bar].Terminal() {
			ms[st.Bar].Apply(st)
		}
	}
	return false
}

func containsInt(xs []int, x int) bool {
	for _, y := range xs {
		if y == x {
			return true
		}
	}
	return false
}

// runC17Conc judges a concurrent history by invariants only: creation,
// completion and frames race, so which successors come in time and which come
// late is not known; what holds either way is that a successor is never shown
// with or before its predecessor (unless the predecessor was popped out before
// the successor came, whose rows then persist), and that in a container that
// refreshes by itself every successor is displayed before Wait returns.
func runC17Conc(sc *engine.Scenario, tr *engine.Trace, r Result) Result {
	r.Classes = append(r.Classes, "concurrent")
	frames := tr.Frames()
	rowsAll := 0
	for i, b := range sc.Bars {
		if tr.Added[i] {
			rowsAll += 1 + b.ExtRows
		}
	}
	limit := sc.Cfg.Width
	if limit <= 0 {
		limit = 80
	}
	multi := map[int]int{}
	for s, b := range sc.Bars {
		p := b.QueueAfter
		if p < 0 || !tr.Added[s] || !tr.Added[p] {
			continue
		}
		multi[p]++
		mayBePopped := sc.Cfg.Pop && !sc.Bars[p].NoPop
		firstS, lastP := -1, -1
		for k := range frames {
			f := &frames[k]
			hp, hs := f.Count(p) > 0, f.Count(s) > 0
			if hp && hs && !mayBePopped {
				r.Err, r.Kind = fmt.Errorf("frame %d shows bar %d together with its predecessor %d: %q", k, s, p, f.Raw), "together"
				return r
			}
			if hp {
				lastP = k
			}
			if hs && firstS < 0 {
				firstS = k
			}
		}
		if firstS >= 0 && lastP >= 0 && firstS < lastP && !mayBePopped {
			r.Err, r.Kind = fmt.Errorf("bar %d is displayed (frame %d) before its predecessor %d was last displayed (frame %d)", s, firstS, p, lastP), "early"
			return r
		}
		if firstS < 0 && tr.CancelSeq == 0 && tr.WaitSeq != 0 && tr.PtyStream == nil && rowsAll <= limit && sc.Cfg.Refresh != "manual" && sc.Cfg.Refresh != "none" && !sc.Cfg.Delay && tr.OutputErrs == 0 {
			r.Err, r.Kind = fmt.Errorf("bar %d queued after bar %d was never displayed in any of the %d frames although the container refreshes by itself and Wait returned after every bar had finished", s, p, len(frames)), "never-displayed"
			return r
		}
	}
	for _, n := range multi {
		if n >= 2 {
			r.Classes = append(r.Classes, "concurrent-multi-successor")
			break
		}
	}
	r.Nontrivial = len(multi) > 0
	return r
}
