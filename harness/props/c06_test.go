package props

import (
	"fmt"
	"math"

	"pgregory.net/rapid"
	"verif/harness/engine"
	"verif/harness/vstat"
)

// C06 — bars are laid out by priority, and priority changes take effect as
// documented. Clocked scenarios (manual refresh, one client) against the frame
// model: the oracle is a validity predicate — every frame's top-to-bottom order
// must be non-decreasing in the model's effective priorities (ties: any order;
// the single frame after a lazy change: any order).

func init() {
	register(&Prop{ID: "C06", Gen: genC06, New: func() interface{} { return new(engine.Scenario) }, Run: runC06, Journal: true})
}

var profC06 = Profile{
	MaxBars: 8, MinBars: 2, MaxSteps: 45, Refresh: []string{"manual"}, QLens: []int{-1},
	Pop: 35, Queue: 25, LateSuccW: 2, Prio: true, PrioExtreme: true, PrioOnFinished: true, Ext: 10, Rm: 20, NoPop: 20, AbortW: 2, TicksW: 12,
	Fillers: []string{"tag", "bar"}, LateAdd: true, PrioMidRender: 25, AddTick: 10,
}

func genC06(t *rapid.T) interface{} {
	excludedKnown = 0
	sc := genScenario(t, &profC06)
	excludedKnown += int64(repairQueue(sc))
	vstat.Excluded(excludedKnown)
	return sc
}

func runC06(ci interface{}) Result {
	sc := ci.(*engine.Scenario)
	var r Result
	tr := engine.Run(sc, engine.Options{})
	if tr.Inconclusive != "" || tr.Hang != nil {
		r.Inconclusive = true
		return r
	}
	frames := tr.Frames()
	sim := engine.Simulate(sc)
	if !sim.OK {
		vstat.Class("model-not-applicable", 1)
		return r
	}
	if len(sim.Frames) != len(frames) {
		// membership / frame count is C05's business; the order cannot be judged
		r.Inconclusive = true
		vstat.Note(fmt.Sprintf("frame count differs from the model (%d vs %d)", len(frames), len(sim.Frames)))
		return r
	}
	if sc.Cfg.Pop {
		r.Classes = append(r.Classes, "pop")
	}
	r.Classes = append(r.Classes, featureClasses(sc)...)
	maxShown, ordered := 0, 0
	for k := range frames {
		mf := &sim.Frames[k]
		order := frames[k].BarOrder()
		if len(order) > maxShown {
			maxShown = len(order)
		}
		for _, b := range order {
			if _, ok := mf.Prio[b]; !ok {
				r.Inconclusive = true
				vstat.Note("frame shows a bar the model does not have")
				return r
			}
		}
		// "in pop-completed mode finished bars rise above all running bars": a bar
		// the model has on top with its pop priority must be there (no output is a
		// terminal here, nothing is cut by a height)
		if !mf.Ambiguous {
			for _, b := range mf.Order {
				if mf.Prio[b] < math.MinInt32+1<<20 && frames[k].Count(b) == 0 {
					r.Err, r.Kind = fmt.Errorf("frame %d (bars top to bottom %v): bar %d finished in pop-completed mode and should have risen to the top of this frame, it is not shown", k, order, b), "popped-missing"
					return r
				}
			}
		}
		if mf.Unordered {
			r.Classes = append(r.Classes, "frame-after-lazy")
			continue
		}
		ordered++
		if err := orderValid(order, mf.Prio); err != nil {
			r.Err, r.Kind = fmt.Errorf("frame %d (bars top to bottom %v): %v", k, order, err), "order"
			return r
		}
	}
	// classes
	lazy, imm, extreme, succ := 0, 0, false, false
	for _, st := range sc.Steps {
		if st.Op == "uprio" && st.Flag {
			lazy++
		} else if st.Op == "prio" || st.Op == "uprio" {
			imm++
		}
		if (st.Op == "prio" || st.Op == "uprio") && (st.N > 1<<20 || st.N < -(1<<19)) {
			extreme = true
		}
	}
	for i, b := range sc.Bars {
		if b.Priority != nil && (*b.Priority > 1<<20 || *b.Priority < -(1<<19)) && tr.Added[i] {
			extreme = true
		}
		if b.QueueAfter >= 0 && tr.Added[i] && sim.Displayed[i] {
			succ = true
		}
	}
	if lazy > 0 {
		r.Classes = append(r.Classes, "lazy-change")
	}
	if imm > 0 {
		r.Classes = append(r.Classes, "immediate-change")
	}
	if extreme {
		r.Classes = append(r.Classes, "extreme-priority")
	}
	if succ {
		r.Classes = append(r.Classes, "successor-displayed")
	}
	if len(sim.PopOrder) >= 2 {
		r.Classes = append(r.Classes, "popped>=2")
	}
	r.Nontrivial = maxShown >= 3 && lazy+imm >= 1 && ordered >= 3
	return r
}
