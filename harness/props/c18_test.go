package props

import (
	"fmt"
	"strings"

	"github.com/acarl005/stripansi"
	"pgregory.net/rapid"
	"verif/harness/engine"
	"verif/harness/vstat"
)

// C18 — pop-completed mode leaves each finished bar on screen exactly once.
//
// The whole output is interpreted by the VT emulator; the resulting document
// (scrollback + screen) is what the user is left with. Every bar that finished,
// is not no-pop and had no successor must be there exactly once, in its
// finished state, with its extender rows; bars popped in different cycles
// appear in finishing order; after a bar has been persisted its filler is never
// called again; no-pop bars and running bars keep their priority order below
// the popped ones (frame by frame, against the frame model).

func init() {
	register(&Prop{ID: "C18", Gen: genC18, New: func() interface{} { return new(engine.Scenario) }, Run: runC18, Journal: true})
}

var profC18 = Profile{
	MaxBars: 8, MinBars: 1, MaxSteps: 45, Refresh: []string{"manual", "manual", "manual", "autoinj", "autort"}, QLens: []int{-1},
	Pop: 100, Queue: 15, LateSuccW: 2, Prio: true, PrioOnFinished: true, PrioExtreme: true, Ext: 30, Text: 2, Rm: 20, NoPop: 25, AbortW: 3, TicksW: 10,
	Pty: 30, PtyRowsMax: 12, Fillers: []string{"tag", "bar"}, LateAdd: true, OnCompleteFill: 30, PrioMidRender: 20, AddTick: 10,
}

func genC18(t *rapid.T) interface{} {
	excludedKnown = 0
	sc := genScenario(t, &profC18)
	sc.Cfg.Pop = true
	if sc.Cfg.PtyRows > 0 && openFinding("C18-popped-bar-cut-by-height") {
		// open finding: when the rows do not fit the terminal the top rows are cut,
		// and a popped bar is the top row: it is lost instead of persisted.
		need := 1
		for _, b := range sc.Bars {
			need += 1 + b.ExtRows
		}
		if sc.Cfg.PtyRows < need {
			sc.Cfg.PtyRows = need
			excludedKnown++
		}
	}
	if sc.Cfg.Refresh == "manual" {
		excludedKnown += int64(repairQueue(sc))
	}
	vstat.Excluded(excludedKnown)
	return sc
}

func runC18(ci interface{}) Result {
	sc := ci.(*engine.Scenario)
	var r Result
	tr := engine.Run(sc, engine.Options{})
	if tr.Inconclusive != "" {
		r.Inconclusive = true
		return r
	}
	if tr.Hang != nil {
		vstat.Class("hang-left-to-C01", 1)
		dumpHang(sc, tr)
		return r
	}
	r.Classes = append(append(r.Classes, "refresh:"+sc.Cfg.Refresh), featureClasses(sc)...)
	end, cancelled, ok := engine.EndState(sc)
	if !ok || cancelled {
		return r
	}
	frames := tr.Frames()
	rows, cols := 0, 0
	if sc.Cfg.PtyRows > 0 {
		rows, cols = sc.Cfg.PtyRows, sc.Cfg.PtyCols
		r.Classes = append(r.Classes, "pty")
	}
	vt := engine.NewVT(rows, cols)
	for k := range frames {
		vt.Feed(frames[k].Raw)
	}
	if len(vt.Errors) > 0 {
		r.Inconclusive = true // terminal arithmetic is C04's business
		return r
	}
	doc := vt.Lines()
	// who must be persisted: finished (all are, the run ended by Wait), not no-pop, no successor
	hasSucc := map[int]bool{}
	for j, b := range sc.Bars {
		if end[j].Added && b.QueueAfter >= 0 && end[b.QueueAfter].Added {
			hasSucc[b.QueueAfter] = true
		}
	}
	in := engine.FinalContainer(sc, end)
	sim := engine.Simulate(sc)
	manual := sc.Cfg.Refresh == "manual"
	// expectation per bar: persisted (popped out, stays once in finished state),
	// live (in the last frame, once), or absent
	persistedSet, liveSet := map[int]bool{}, map[int]bool{}
	// either: finished bars with successors that were all created after the bar
	// had finished. Without the program's clock (auto refresh) the bar may have
	// been popped before they came (it then stays on screen once, finished) or
	// may still have handed over to them (it is then gone)
	eitherSet := map[int]bool{}
	if manual {
		// without a refresh of its own the container only draws when the program
		// asks: what was persisted and what the last frame holds comes from the
		// frame model
		if !sim.OK || len(sim.Frames) != len(frames) {
			r.Inconclusive = sim.OK
			return r
		}
		for k := range sim.Frames {
			for _, b := range sim.Frames[k].Persist {
				persistedSet[b] = true
			}
		}
		for k := range sim.Frames {
			if sim.Frames[k].Ambiguous {
				return r // which of several equal-priority bars is cut off is unspecified
			}
		}
		if n := len(sim.Frames); n > 0 {
			for _, b := range sim.Frames[n-1].Visible {
				if !persistedSet[b] {
					liveSet[b] = true
				}
			}
		}
	} else {
		maybe := poppedDespiteSuccessor(sc)
		for i, b := range sc.Bars {
			if end[i].Added && !b.NoPop && !hasSucc[i] {
				persistedSet[i] = true
			} else if in[i] {
				liveSet[i] = true
			} else if end[i].Added && maybe[i] {
				eitherSet[i] = true
			}
		}
	}
	// can the rows of all bars exceed the height (terminal rows - 1, or the width
	// of a non-terminal output)?
	allRows := 0
	for i, b := range sc.Bars {
		if end[i].Added {
			allRows += 1 + b.ExtRows
		}
	}
	heightLimit := sc.Cfg.Width
	if heightLimit <= 0 {
		heightLimit = 80
	}
	if sc.Cfg.PtyRows > 0 {
		heightLimit = sc.Cfg.PtyRows - 1
	}
	mayClip := allRows > heightLimit
	if mayClip {
		r.Classes = append(r.Classes, "rows-exceed-height")
	}
	where := map[int]int{}
	count := map[int]int{}
	extCount := map[string]int{}
	for idx, ln := range doc {
		pf := engine.ParseFrame(0, 0, []byte(stripansi.Strip(ln)+"\n"))
		if len(pf.Lines) != 1 {
			continue
		}
		l := pf.Lines[0]
		switch l.Kind {
		case "bar":
			count[l.Bar]++
			where[l.Bar] = idx
			if l.Bar < len(end) && end[l.Bar].Added && (persistedSet[l.Bar] || !manual) {
				e := end[l.Bar]
				if e.Completed && (l.Flag != "C" || l.Cur != l.Tot) || e.Aborted && l.Flag != "A" {
					r.Err, r.Kind = fmt.Errorf("bar %d ended completed=%v aborted=%v but what stays on screen is %q", l.Bar, e.Completed, e.Aborted, ln), "stale-state"
					return r
				}
			}
		case "ext":
			extCount[fmt.Sprintf("e%d.%d", l.Bar, l.Ext)]++
		}
	}
	popped := 0
	for i, b := range sc.Bars {
		if !end[i].Added {
			continue
		}
		switch {
		case persistedSet[i]:
			popped++
			if count[i] != 1 {
				r.Err, r.Kind = fmt.Errorf("bar %d finished in pop-completed mode and must stay on screen exactly once, it is there %d times; screen: %q", i, count[i], doc), "pop-count"
				return r
			}
			nExt := b.ExtRows
			if b.ExtNoNL && nExt > 0 {
				nExt--
			}
			for j := 0; j < nExt; j++ {
				if n := extCount[fmt.Sprintf("e%d.%d", i, j)]; n != 1 {
					r.Err, r.Kind = fmt.Errorf("extender row %d of popped bar %d is on screen %d times; screen: %q", j, i, n, doc), "pop-count"
					return r
				}
			}
		case eitherSet[i]:
			if count[i] > 1 {
				r.Err, r.Kind = fmt.Errorf("bar %d finished in pop-completed mode before its successors were created: it stays on screen once or not at all, it is there %d times; screen: %q", i, count[i], doc), "pop-count"
				return r
			}
		case liveSet[i] && !manual && mayClip:
			// more rows than the height: which of the bars still in the container
			// the last frame shows is the frame model's business (manual refresh)
			if count[i] > 1 {
				r.Err, r.Kind = fmt.Errorf("bar %d is in the last frame and must be on screen at most once, it is there %d times; screen: %q", i, count[i], doc), "live-count"
				return r
			}
		case liveSet[i]:
			if count[i] != 1 {
				r.Err, r.Kind = fmt.Errorf("bar %d is in the last frame and must be on screen once, it is there %d times; screen: %q", i, count[i], doc), "live-count"
				return r
			}
		default:
			if count[i] != 0 {
				r.Err, r.Kind = fmt.Errorf("bar %d is neither persisted nor part of the last frame but is on screen %d times: %q", i, count[i], doc), "stale"
				return r
			}
		}
	}
	// popped bars stay above everything that is still part of the last frame
	for i := range sc.Bars {
		if persistedSet[i] || eitherSet[i] && count[i] == 1 {
			for j := range sc.Bars {
				if liveSet[j] && count[j] == 1 && where[j] < where[i] {
					r.Err, r.Kind = fmt.Errorf("popped bar %d (line %d) is below bar %d (line %d) which is still in the container; screen: %q", i, where[i], j, where[j], doc), "pop-position"
					return r
				}
			}
		}
	}
	if popped >= 2 {
		r.Classes = append(r.Classes, "popped>=2")
	}
	// exact part: finishing order, order of the rest, fillers stop
	if sim.OK && len(sim.Frames) == len(frames) {
		r.Classes = append(r.Classes, "exact-model")
		for a, ta := range sim.PopTick {
			for b, tb := range sim.PopTick {
				if ta < tb && count[a] == 1 && count[b] == 1 && where[a] > where[b] && !hasSucc[a] && !hasSucc[b] {
					r.Err, r.Kind = fmt.Errorf("bar %d finished (cycle %d) before bar %d (cycle %d) but stays below it on screen: %q", a, ta, b, tb, doc), "pop-order"
					return r
				}
			}
		}
		for k := range frames {
			if sim.Frames[k].Unordered {
				continue
			}
			order := frames[k].BarOrder()
			okp := true
			for _, b := range order {
				if _, has := sim.Frames[k].Prio[b]; !has {
					okp = false
				}
			}
			if !okp {
				continue
			}
			if err := orderValid(order, sim.Frames[k].Prio); err != nil {
				r.Err, r.Kind = fmt.Errorf("frame %d: %v (finished bars rise above running ones in finishing order, no-pop bars keep their place)", k, err), "frame-order"
				return r
			}
		}
		for i := range sc.Bars {
			if end[i].Added && tr.TagCalls[i] != sim.Fills[i] {
				r.Err, r.Kind = fmt.Errorf("bar %d was rendered %d times, the frame model has it in %d render cycles (a popped bar takes no further part in rendering)", i, tr.TagCalls[i], sim.Fills[i]), "render-calls"
				return r
			}
		}
		distinctTicks := map[int]bool{}
		for _, tk := range sim.PopTick {
			distinctTicks[tk] = true
		}
		sameCycle := len(sim.PopTick) > len(distinctTicks)
		if sameCycle {
			r.Classes = append(r.Classes, "same-cycle-pops")
		}
		lastPop := 0
		for _, tk := range sim.PopTick {
			if tk > lastPop {
				lastPop = tk
			}
		}
		r.Nontrivial = len(distinctTicks) >= 2 && len(sim.Frames) > lastPop
	} else {
		r.Nontrivial = popped >= 2 && len(frames) >= 4
	}
	for _, b := range sc.Bars {
		if b.NoPop {
			r.Classes = append(r.Classes, "nopop")
			break
		}
	}
	for _, b := range sc.Bars {
		if b.ExtRows > 0 {
			r.Classes = append(r.Classes, "extender")
			break
		}
	}
	if strings.Contains(fmt.Sprint(sc.Steps), "write") {
		r.Classes = append(r.Classes, "text")
	}
	return r
}
