package props

import (
	"math"

	"pgregory.net/rapid"
)

var int64Boundaries = []int64{
	0, 1, 2, 3, 7, 10, 99, 100, 101, 127, 128, 255, 256, 999, 1000, 1001, 1023, 1024, 1025,
	1<<15 - 1, 1 << 15, 1<<16 - 1, 1 << 16, 999999, 1000000, 1<<20 - 1, 1 << 20, 1<<20 + 1,
	1<<31 - 1, 1 << 31, 1<<31 + 1, 1<<32 - 1, 1 << 32, 1<<32 + 1, 999999999, 1000000000, 1<<30 - 1, 1 << 30,
	999999999999, 1000000000000, 1<<40 - 1, 1 << 40, 1<<40 + 1,
	1<<53 - 1, 1 << 53, 1<<53 + 1, 1 << 56, 1<<57 + 12345, 1 << 58, 1 << 60, 1<<61 - 1, 1 << 61, 1<<61 + 1,
	1<<62 - 1, 1 << 62, 1<<62 + 1, math.MaxInt64 - 1, math.MaxInt64,
}

// genNonNegInt64 draws a non-negative int64, biased to boundaries.
func genNonNegInt64(t *rapid.T, label string) int64 {
	switch rapid.IntRange(0, 5).Draw(t, label+".mode") {
	case 0:
		b := rapid.SampledFrom(int64Boundaries).Draw(t, label+".b")
		d := rapid.Int64Range(-3, 3).Draw(t, label+".d")
		if d < 0 && b < -d {
			return b
		}
		if d > 0 && b > math.MaxInt64-d {
			return b
		}
		return b + d
	case 1:
		return rapid.Int64Range(0, 300).Draw(t, label+".small")
	case 2:
		sh := rapid.IntRange(0, 62).Draw(t, label+".sh")
		return rapid.Int64Range(0, math.MaxInt64).Draw(t, label+".u") >> uint(sh)
	case 3:
		return rapid.Int64Range(0, 1<<20).Draw(t, label+".mid")
	default:
		return rapid.Int64Range(0, math.MaxInt64).Draw(t, label+".any")
	}
}

// genInt64 draws any int64, biased to boundaries, negatives included.
func genInt64(t *rapid.T, label string) int64 {
	v := genNonNegInt64(t, label)
	if rapid.IntRange(0, 4).Draw(t, label+".neg") == 0 {
		if rapid.IntRange(0, 20).Draw(t, label+".min") == 0 {
			return math.MinInt64
		}
		return -v
	}
	return v
}
