package props

import (
	"encoding/json"
	"fmt"
	"os"
	"sort"
	"time"

	"github.com/anishathalye/porcupine"
	"github.com/vbauerster/mpb/v8/decor"
	"pgregory.net/rapid"
	"verif/harness/engine"
	"verif/harness/vstat"
)

// C10 — concurrent bar operations are atomic and the library is free of data
// races.
//
// 2-8 client goroutines operate on 1-3 shared bars (all mutators and getters,
// priorities, Write, late adds) while render cycles run (1 ms ticker, injected
// ticks, manual), bars complete, are aborted and shut down, with holds that park
// operations across the bar goroutine's exit. Oracles: (1) linearizability of
// the per-bar invoke/return history against the sequential bar model (checked by
// porcupine; operations that reach a bar after its terminal event may have been
// applied or dropped), (2) at quiescence Current equals the capped sum of the
// increments, (3) the same scenarios in a -race build: a reported data race
// whose two accesses are both in library code is a violation.

func init() {
	register(&Prop{ID: "C10", Gen: genC10, New: func() interface{} { return new(engine.Scenario) }, Run: runC10, Journal: true})
}

var profC10 = ConcProfile{
	Profile: Profile{
		MaxBars: 4, MinBars: 1, Refresh: []string{"autort", "autort", "autoinj", "manual", "none"}, QLens: []int{-1, -1, 0},
		Pop: 15, Queue: 30, Prio: true, Text: 1, Rm: 25, AbortW: 2, Ext: 10,
		SyncDecors: 1, PlainDecors: 1, Wraps: true, Fillers: []string{"tag", "bar"}, EwmaPct: 20, Listeners: 10, BuiltinPct: 50,
	},
	MaxBlocks: 8, MaxBlockOps: 16, Pars: 2, CancelIn: 12, PerturbMax: 2, HoldPct: 50, SyncPct: 30, WriteBoost: 8,
}

func genC10(t *rapid.T) interface{} {
	excludedKnown = 0
	sc := genConcurrent(t, &profC10)
	sc.Cfg.RateMs = 1
	incrOnly := rapid.IntRange(0, 2).Draw(t, "incronly") == 0
	// more getters, and getters around the bars' exit
	for si := range sc.Steps {
		for bi := range sc.Steps[si].Par {
			blk := sc.Steps[si].Par[bi]
			for k := range blk {
				if incrOnly {
					switch blk[k].Op {
					case "setcur", "settotal", "etc", "abort":
						blk[k] = engine.Step{Op: "incr", Bar: blk[k].Bar, N: int64(k%5) + 1}
					}
				}
				if blk[k].Op == "proxy" {
					// proxies increment the bar behind the call log's back
					blk[k] = engine.Step{Op: "get", Bar: blk[k].Bar}
				} else if !incrOnly && blk[k].Op == "refill" {
					// absolute sets from several clients (torn read-modify-write shows here)
					v := ""
					if k%2 == 0 {
						v = "ewma"
					}
					blk[k] = engine.Step{Op: "setcur", Bar: blk[k].Bar, N: blk[k].N, Text: v}
				} else if !incrOnly && blk[k].Op == "id" {
					blk[k] = engine.Step{Op: "traverse", Bar: blk[k].Bar}
				} else if !incrOnly && blk[k].Op == "sleep" {
					blk[k] = engine.Step{Op: "get", Bar: blk[k].Bar % len(sc.Bars)}
				}
			}
		}
	}
	if incrOnly {
		sc.Epilogue = "complete"
	}
	if rapid.IntRange(0, 3).Draw(t, "paralleladds") == 0 {
		// two more bars, added by two goroutines at the same moment, whose decorators
		// are built from one shared (read-only) width configuration
		w, c := rapid.IntRange(0, 8).Draw(t, "sharedW"), rapid.SampledFrom([]int{decor.DSyncWidth, decor.DSyncSpace, decor.DSyncSpaceR, 0}).Draw(t, "sharedC")
		n := len(sc.Bars)
		for k := 0; k < 2; k++ {
			sc.Bars = append(sc.Bars, engine.BarSpec{Total: 5, QueueAfter: -1, Filler: "tag",
				Decors: []engine.DecorSpec{{Side: k, Texts: []string{"shared", "s"}, W: w, C: c, ViaAny: true}}})
		}
		at := 0
		for at < len(sc.Steps) && sc.Steps[at].Op == "add" {
			at++
		}
		st := engine.Step{Op: "add2", Bar: n, N: int64(n + 1)}
		sc.Steps = append(sc.Steps[:at], append([]engine.Step{st}, sc.Steps[at:]...)...)
	}
	if sc.Cfg.Refresh != "none" && rapid.IntRange(0, 4).Draw(t, "latesuccrace") == 0 {
		// a bar finishes, goes through its last frames and stays displayed; then one
		// client queues a bar after it (the late-successor path, which reads the
		// finished bar's place in the heap) while another changes its priority
		n := len(sc.Bars)
		sc.Bars = append(sc.Bars,
			engine.BarSpec{Total: 5, QueueAfter: -1, Filler: "tag", NoPop: true},
			engine.BarSpec{Total: 5, QueueAfter: n, Filler: "tag"})
		sc.Steps = append(sc.Steps, engine.Step{Op: "add", Bar: n}, engine.Step{Op: "setcur", Bar: n, N: 5})
		if sc.Cfg.Refresh == "autort" {
			sc.Steps = append(sc.Steps, engine.Step{Op: "sleep", N: 6000})
		} else {
			sc.Steps = append(sc.Steps, engine.Step{Op: "tick"}, engine.Step{Op: "tick"}, engine.Step{Op: "tick"})
		}
		var prios []engine.Step
		for k := rapid.IntRange(1, 4).Draw(t, "nprio"); k > 0; k-- {
			prios = append(prios, engine.Step{Op: rapid.SampledFrom([]string{"prio", "uprio"}).Draw(t, "lsop"), Bar: n, N: int64(rapid.IntRange(-3, 8).Draw(t, "lspv")), Flag: rapid.Bool().Draw(t, "lslazy")})
		}
		sc.Steps = append(sc.Steps, engine.Step{Op: "par", Par: [][]engine.Step{
			{{Op: "add", Bar: n + 1}, {Op: "get", Bar: n + 1}},
			prios,
			{{Op: "get", Bar: n}, {Op: "traverse", Bar: n}},
		}})
	}
	// getters right after Wait race with the frames of other containers? no: but
	// reads after the bars have shut down while later frames are still drawn are
	// produced by "get" steps of clients that outlive a bar's completion
	if rapid.Bool().Draw(t, "holdexit") {
		sc.Perturb.Holds = append(sc.Perturb.Holds, engine.Hold{A: "bar.exit", B: "render.begin", KB: 1, HoldMs: 2})
	}
	vstat.Excluded(excludedKnown)
	return sc
}

// ---- sequential specification of one bar for porcupine --------------------

type c10State struct {
	Total, Cur int64
	Trig, Abrt bool
	// Dead: the bar has reached a terminal state at some point. From then on its
	// goroutine is on its way out and later operations may be applied or dropped;
	// the sequential rules only speak about bars that have not finished.
	Dead bool
}

func (s c10State) completed() bool { return s.Trig && !s.Abrt && s.Cur == s.Total }
func (s c10State) terminal() bool  { return s.Abrt || s.completed() }

func (s c10State) clamp() c10State {
	if s.Trig && s.Cur >= s.Total {
		s.Cur = s.Total
	}
	return s
}

type c10In struct {
	Op   string
	N    int64
	Flag bool
}

type c10Out struct {
	N int64
	B bool
}

// c10Apply: effect of a mutator that is executed by the bar goroutine.
func c10Apply(s c10State, in c10In) c10State {
	switch in.Op {
	case "incr":
		s.Cur += in.N
		return s.clamp()
	case "setcur":
		if in.N < 0 {
			return s
		}
		s.Cur = in.N
		return s.clamp()
	case "settotal":
		if s.Trig {
			return s
		}
		if in.N < 0 {
			s.Total = s.Cur
		} else {
			s.Total = in.N
		}
		if in.Flag {
			s.Cur = s.Total
			s.Trig = true
		}
		return s
	case "etc":
		if s.Trig {
			return s
		}
		if s.Cur >= s.Total {
			s.Cur = s.Total
		}
		s.Trig = true
		return s
	case "abort":
		if s.Abrt || s.completed() {
			return s
		}
		s.Abrt = true
		s.Trig = true
		return s
	}
	return s
}

func c10Model(total int64) porcupine.Model {
	nm := porcupine.NondeterministicModel{
		Init: func() []interface{} { return []interface{}{c10State{Total: total, Trig: total > 0}} },
		Step: func(st, input, output interface{}) []interface{} {
			s0, in, out := st.(c10State), input.(c10In), output.(c10Out)
			// a bar whose goroutine exits while it is not completed marks itself
			// aborted (that is how cancellation is reported); after a decreasing
			// update on a completed bar this can happen without an Abort call
			pre := []c10State{s0}
			if s0.Dead && !s0.Abrt && !s0.completed() {
				flipped := s0
				flipped.Abrt = true
				pre = append(pre, flipped)
			}
			var next []interface{}
			for _, s := range pre {
				switch in.Op {
				case "current":
					if out.N == s.Cur {
						next = append(next, s)
					}
					continue
				case "completed":
					if out.B == s.completed() {
						next = append(next, s)
					}
					continue
				case "aborted":
					if out.B == s.Abrt {
						next = append(next, s)
					}
					continue
				}
				applied := c10Apply(s, in)
				if applied.terminal() {
					applied.Dead = true
				}
				next = append(next, applied)
				if s.Dead && applied != s {
					// the bar has been told to stop: the operation may reach its
					// goroutine before it exits, or be dropped
					next = append(next, s)
				}
			}
			return next
		},
		Equal: func(a, b interface{}) bool { return a.(c10State) == b.(c10State) },
		DescribeOperation: func(input, output interface{}) string {
			return fmt.Sprintf("%+v -> %+v", input, output)
		},
	}
	return nm.ToModel()
}

func runC10(ci interface{}) Result {
	sc := ci.(*engine.Scenario)
	var r Result
	tr := engine.Run(sc, engine.Options{})
	if tr.Inconclusive != "" {
		r.Inconclusive = true
		return r
	}
	if tr.Hang != nil {
		vstat.Class("hang-left-to-C01", 1)
		dumpHang(sc, tr)
		return r
	}
	r.Classes = append(append(r.Classes, "refresh:"+sc.Cfg.Refresh), featureClasses(sc)...)
	for _, st := range sc.Steps {
		for _, blk := range st.Par {
			for _, b := range blk {
				if b.Op == "add" && b.Bar < len(sc.Bars) && sc.Bars[b.Bar].QueueAfter >= 0 {
					r.Classes = append(r.Classes, "successor-added-by-concurrent-client")
				}
			}
		}
	}
	for _, st := range sc.Steps {
		if st.Op == "add2" {
			r.Classes = append(r.Classes, "parallel-adds-shared-style")
		}
	}
	if tr.CancelSeq != 0 {
		// a cancelled container aborts its bars from the side at a moment of its own
		// choosing: the sequential rules are silent about that. These histories
		// (clients still operating while everything shuts down and the final
		// refresh runs) are here for the race detector.
		r.Classes = append(r.Classes, "cancelled")
		return r
	}
	// per-bar histories
	byBar := map[int][]engine.CallRec{}
	for _, c := range tr.Calls {
		byBar[c.Bar] = append(byBar[c.Bar], c)
	}
	end := int64(1) << 60
	for _, g := range tr.Final {
		byBar[g.Bar] = append(byBar[g.Bar],
			engine.CallRec{Bar: g.Bar, Op: "current", Inv: end, Ret: end + 1, OutN: g.Cur},
			engine.CallRec{Bar: g.Bar, Op: "completed", Inv: end + 2, Ret: end + 3, OutB: g.Completed},
			engine.CallRec{Bar: g.Bar, Op: "aborted", Inv: end + 4, Ret: end + 5, OutB: g.Aborted})
	}
	shared, overlapExit := false, false
	for bar, calls := range byBar {
		if bar < 0 || bar >= len(sc.Bars) || !tr.Added[bar] {
			continue
		}
		clients := map[int]bool{}
		var ops []porcupine.Operation
		incrOnly := true
		var sum int64
		for _, c := range calls {
			clients[c.Client] = true
			ops = append(ops, porcupine.Operation{ClientId: c.Client, Input: c10In{c.Op, c.N, c.Flag}, Call: c.Inv, Output: c10Out{c.OutN, c.OutB}, Return: c.Ret})
			switch c.Op {
			case "incr":
				if c.N < 0 {
					incrOnly = false
				}
				sum += c.N
			case "current", "completed", "aborted":
			case "settotal", "setcur":
				if c.Client != 0 || c.Inv < tr.StepSeqLast() {
					incrOnly = false
				}
			default:
				incrOnly = false
			}
		}
		if len(clients) >= 3 {
			shared = true
		}
		if len(ops) > 400 {
			sort.Slice(ops, func(i, j int) bool { return ops[i].Call < ops[j].Call })
			ops = ops[:400]
		}
		res := porcupine.CheckOperationsTimeout(c10Model(sc.Bars[bar].Total), ops, 8*time.Second)
		switch res {
		case porcupine.Illegal:
			if d := os.Getenv("VERIF_HANGDUMP"); d != "" {
				b, _ := json.Marshal(map[string]interface{}{"total": sc.Bars[bar].Total, "calls": calls, "case": sc})
				_ = os.WriteFile(fmt.Sprintf("%s/c10-%x.json", d, vstat.HashBytes(b)), b, 0o644)
			}
			r.Err = fmt.Errorf("the history of bar %d (total %d, %d operations from %d clients) is not linearizable with respect to the sequential rules: %s", bar, sc.Bars[bar].Total, len(ops), len(clients), c10Describe(calls))
			r.Kind = "not-linearizable"
			return r
		case porcupine.Unknown:
			r.Inconclusive = true
			vstat.Note("porcupine timed out")
			return r
		}
		// quiescent sum for bars that only saw non-negative increments before the
		// epilogue completed them (SetTotal(-1,true): total adopts the sum)
		if incrOnly && sc.Epilogue == "complete" && tr.CancelSeq == 0 {
			spec := sc.Bars[bar]
			want := sum
			if spec.Total > 0 && sum >= spec.Total {
				want = spec.Total
			} else if spec.Total > 0 {
				want = spec.Total // the epilogue's SetCurrent(max) completes it at total
			}
			for _, g := range tr.Final {
				if g.Bar == bar && g.Cur != want {
					r.Err, r.Kind = fmt.Errorf("bar %d (total %d): increments sum to %d, at quiescence Current()=%d, want %d", bar, spec.Total, sum, g.Cur, want), "lost-update"
					return r
				}
			}
			r.Classes = append(r.Classes, "quiescent-sum")
		}
	}
	// did a getter overlap a render of the same bar or its exit (by event numbers)?
	type span struct{ a, b int64 }
	exits := map[int]int64{}
	renders := map[int][]int64{}
	for _, e := range tr.Events {
		switch e.Point {
		case "bar.exit":
			exits[e.Bar] = e.Seq
		case "bar.render":
			renders[e.Bar] = append(renders[e.Bar], e.Seq)
		}
	}
	for _, c := range tr.Calls {
		if c.Op != "current" && c.Op != "completed" && c.Op != "aborted" {
			continue
		}
		if x, ok := exits[c.Bar]; ok && c.Ret > x {
			for _, rs := range renders[c.Bar] {
				if rs > x {
					overlapExit = true // reads after the bar's exit while it is still being drawn
				}
			}
		}
	}
	if shared {
		r.Classes = append(r.Classes, "shared-bar>=3clients")
	}
	if overlapExit {
		r.Classes = append(r.Classes, "getter-after-exit-with-later-render")
	}
	r.Nontrivial = shared
	return r
}

func c10Describe(calls []engine.CallRec) string {
	s := ""
	for i, c := range calls {
		if i >= 60 {
			s += " …"
			break
		}
		s += fmt.Sprintf(" [c%d %s(%d,%v)->(%d,%v) %d..%d]", c.Client, c.Op, c.N, c.Flag, c.OutN, c.OutB, c.Inv, c.Ret)
	}
	return s
}
