package props

import (
	"bytes"
	"context"
	"fmt"
	"runtime"
	"strings"
	"sync"
	"time"
	"unicode/utf8"

	"github.com/acarl005/stripansi"
	"github.com/mattn/go-runewidth"
	mpb "github.com/vbauerster/mpb/v8"
	"github.com/vbauerster/mpb/v8/decor"
	"pgregory.net/rapid"
	"verif/harness/engine"
	"verif/harness/vpty"
	"verif/harness/vstat"
)

// C07 — a rendered row never exceeds its width, and rendering terminates.

type c07Style struct {
	Kind     string   `json:"kind"` // "bar" | "spinner" | "nop"
	Lbound   string   `json:"lbound"`
	Rbound   string   `json:"rbound"`
	Filler   string   `json:"filler"`
	Refiller string   `json:"refiller"`
	Padding  string   `json:"padding"`
	Tips     []string `json:"tips"`
	TipOnC   bool     `json:"tip_on_complete"`
	Rev      bool     `json:"rev"`
	Meta     bool     `json:"meta"` // colour every component through the *Meta hooks
	Frames   []string `json:"frames"`
	Pos      int      `json:"pos"` // spinner: 0 middle, 1 left, 2 right
}

type c07Decor struct {
	Kind   string   `json:"kind"` // name, percentage, counters, total, current, inverted, elapsed, spinner, avgeta, avgspeed, ewmaeta, ewmaspeed
	Text   string   `json:"text"`
	W      int      `json:"w"`
	C      int      `json:"c"`
	Wrap   []string `json:"wrap"` // outermost last: oncomplete, onabort, meta, oncompletemeta, onabortmeta, ocoa
	Unit   int      `json:"unit"` // 0 none, 1 1024, 2 1000
	Format string   `json:"format"`
	Append bool     `json:"append"`
}

type c07Case struct {
	Mode      string     `json:"mode"` // fill | decor | row
	TW        int        `json:"tw"`
	Requested int        `json:"requested"`
	Pty       bool       `json:"pty"`
	Trim      bool       `json:"trim"`
	Style     c07Style   `json:"style"`
	Decors    []c07Decor `json:"decors"`
	Total     int64      `json:"total"`
	Current   int64      `json:"current"`
	Refill    int64      `json:"refill"`
	Completed bool       `json:"completed"`
	Aborted   bool       `json:"aborted"`
	Reps      int        `json:"reps"`
	// mode "frames": a whole container (several bars, more rows than the height,
	// bars leaving so that hidden ones come into view); every row of every frame
	// must stay within the width
	Scen *engine.Scenario `json:"scen,omitempty"`
}

// profC07Frames: small heights, many bars, bars dropped and removed.
var profC07Frames = Profile{
	MaxBars: 8, MinBars: 3, MaxSteps: 30, Refresh: []string{"manual"}, QLens: []int{-1},
	Pop: 20, Rm: 40, AbortW: 4, TicksW: 10, Ext: 20, Text: 1, Pty: 100, PtyRowsMax: 5,
	PlainDecors: 1, SyncDecors: 1, Wraps: true, Fillers: []string{"bar", "nop", "spinner", "spinnerv", "bartip"}, LateAdd: true, ChurnW: 2, BuiltinPct: 30, // (the harness's own "tag" filler ignores the width it is given)
}

func init() {
	register(&Prop{ID: "C07", Gen: genC07, New: func() interface{} { return new(c07Case) }, Run: runC07})
}

// component alphabet: every string is a whole grapheme cluster sequence that
// does not join with neighbours (no trailing ZWJ, no leading combining mark).
var c07Alphabet = []string{"=", ">", "-", "+", "#", "[", "]", "|", "世", "界", "▓", "░", "é", "👍", "", "​", "ab", "世a", ">>>", "=>", "╢", "╟", "▌"}
var c07Texts = []string{"", "a", "name", "downloading", "世界", "é", "👍 ok", "a much longer decorator text that will not fit", "x", "12345678901234567890", "日本語テキスト", " ",
	// escape sequences inside the text (a coloured fragment followed by plain text, two coloured fragments)
	"\x1b[31mERR\x1b[0m: something went wrong here", "\x1b[1mab\x1b[0m \x1b[32mcd\x1b[0m and a plain tail"}

func genC07Style(t *rapid.T) c07Style {
	var s c07Style
	comp := rapid.SampledFrom(c07Alphabet)
	switch rapid.IntRange(0, 9).Draw(t, "stylekind") {
	case 0, 1:
		s.Kind = "spinner"
		n := rapid.IntRange(0, 3).Draw(t, "nframes")
		for i := 0; i < n; i++ {
			s.Frames = append(s.Frames, comp.Draw(t, "frame"))
		}
		s.Pos = rapid.IntRange(0, 2).Draw(t, "pos")
		s.Meta = rapid.Bool().Draw(t, "meta")
	case 2:
		s.Kind = "nop"
	default:
		s.Kind = "bar"
		def := func(d string, label string) string {
			if rapid.IntRange(0, 2).Draw(t, label+"?") == 0 {
				return d
			}
			return comp.Draw(t, label)
		}
		s.Lbound, s.Rbound = def("[", "lb"), def("]", "rb")
		s.Filler, s.Refiller, s.Padding = def("=", "fi"), def("+", "re"), def("-", "pa")
		n := rapid.IntRange(0, 3).Draw(t, "ntips")
		for i := 0; i < n; i++ {
			s.Tips = append(s.Tips, comp.Draw(t, "tip"))
		}
		s.TipOnC = rapid.Bool().Draw(t, "tipc")
		s.Rev = rapid.Bool().Draw(t, "rev")
		s.Meta = rapid.IntRange(0, 3).Draw(t, "meta") == 0
	}
	return s
}

var c07DecorKinds = []string{"name", "name", "name", "percentage", "counters", "total", "current", "inverted", "elapsed", "spinner", "avgeta", "avgspeed", "ewmaeta", "ewmaspeed", "any"}
var c07Wraps = []string{"oncomplete", "onabort", "meta", "oncompletemeta", "onabortmeta", "ocoa", "ocmoam"}
var c07Formats = []string{"", "%d", "% d", "%.1f", "% .2f", "%s", "%v", "%5.1f", "%e"}

func genC07Decor(t *rapid.T, sync bool) c07Decor {
	var d c07Decor
	d.Kind = rapid.SampledFrom(c07DecorKinds).Draw(t, "dkind")
	d.Text = rapid.SampledFrom(c07Texts).Draw(t, "dtext")
	d.W = rapid.OneOf(rapid.Just(0), rapid.IntRange(0, 40)).Draw(t, "W")
	d.C = rapid.IntRange(0, 7).Draw(t, "C")
	if !sync {
		d.C &^= decor.DSyncWidth
	}
	nw := rapid.IntRange(0, 3).Draw(t, "nwrap")
	if rapid.Bool().Draw(t, "nowrap") {
		nw = 0
	}
	for i := 0; i < nw; i++ {
		d.Wrap = append(d.Wrap, rapid.SampledFrom(c07Wraps).Draw(t, "wrap"))
	}
	d.Unit = rapid.IntRange(0, 2).Draw(t, "unit")
	d.Format = rapid.SampledFrom(c07Formats).Draw(t, "fmt")
	d.Append = rapid.Bool().Draw(t, "append")
	return d
}

func genC07(t *rapid.T) interface{} {
	c := &c07Case{}
	c.Mode = rapid.SampledFrom([]string{"fill", "fill", "decor", "row", "row", "frames"}).Draw(t, "mode")
	if c.Mode == "frames" {
		c.Scen = genScenario(t, &profC07Frames)
		repairQueue(c.Scen)
		// the terminal is resized (columns only) between frames now and then
		if rapid.Bool().Draw(t, "resizes") && len(c.Scen.Steps) > 0 {
			for n := rapid.IntRange(1, 2).Draw(t, "nresize"); n > 0; n-- {
				at := rapid.IntRange(0, len(c.Scen.Steps)).Draw(t, "resizeat")
				cols := rapid.OneOf(rapid.IntRange(0, 12), rapid.IntRange(10, 120)).Draw(t, "resizecols")
				st := engine.Step{Op: "resize", N: int64(c.Scen.Cfg.PtyRows), Bar: cols}
				c.Scen.Steps = append(c.Scen.Steps[:at], append([]engine.Step{st}, c.Scen.Steps[at:]...)...)
			}
		}
		c.TW = c.Scen.Cfg.PtyCols
		c.Style.Kind = "bar"
		return c
	}
	c.TW = rapid.OneOf(rapid.IntRange(0, 8), rapid.IntRange(0, 60), rapid.IntRange(0, 250)).Draw(t, "tw")
	switch rapid.IntRange(0, 3).Draw(t, "reqmode") {
	case 0:
		c.Requested = rapid.IntRange(-1, 300).Draw(t, "req")
	case 1:
		c.Requested = rapid.IntRange(-1, 8).Draw(t, "reqsmall")
	}
	c.Trim = rapid.Bool().Draw(t, "trim")
	c.Style = genC07Style(t)
	c.Total = genInt64(t, "total")
	switch rapid.IntRange(0, 3).Draw(t, "curmode") {
	case 0:
		c.Current = genInt64(t, "current")
	default:
		if c.Total > 0 {
			c.Current = rapid.Int64Range(0, c.Total).Draw(t, "curin")
		}
	}
	if c.Current > 0 && rapid.Bool().Draw(t, "refill?") {
		c.Refill = rapid.Int64Range(0, c.Current).Draw(t, "refill")
	}
	c.Completed = c.Total > 0 && c.Current == c.Total && rapid.Bool().Draw(t, "completed")
	c.Aborted = !c.Completed && rapid.IntRange(0, 5).Draw(t, "aborted") == 0
	c.Reps = rapid.IntRange(1, 4).Draw(t, "reps")
	switch c.Mode {
	case "decor":
		c.Decors = []c07Decor{genC07Decor(t, true)}
	case "row":
		n := rapid.IntRange(0, 4).Draw(t, "ndecor")
		for i := 0; i < n; i++ {
			c.Decors = append(c.Decors, genC07Decor(t, true))
		}
		c.Pty = rapid.IntRange(0, 3).Draw(t, "pty") == 0
		// (a pty that was never sized reports 0 columns: nothing fits, nothing may be drawn)
		// the row mode drives a real bar: keep the counters in the documented domain
		if c.Total < 0 {
			c.Total = 0
		}
		if c.Current < 0 {
			c.Current = 0
		}
		c.Aborted = false
	}
	return c
}

func c07Width(s string) int { return runewidth.StringWidth(stripansi.Strip(s)) }

func colour(s string) string { return "\x1b[32m" + s + "\x1b[0m" }

func c07BuildFiller(s c07Style) mpb.BarFiller {
	switch s.Kind {
	case "spinner":
		b := mpb.SpinnerStyle(s.Frames...)
		switch s.Pos {
		case 1:
			b = b.PositionLeft()
		case 2:
			b = b.PositionRight()
		}
		if s.Meta {
			b = b.Meta(colour)
		}
		return b.Build()
	case "nop":
		return mpb.NopStyle().Build()
	}
	b := mpb.BarStyle().Lbound(s.Lbound).Rbound(s.Rbound).Filler(s.Filler).Refiller(s.Refiller).Padding(s.Padding).Tip(s.Tips...)
	if s.TipOnC {
		b = b.TipOnComplete()
	}
	if s.Rev {
		b = b.Reverse()
	}
	if s.Meta {
		b = b.LboundMeta(colour).RboundMeta(colour).FillerMeta(colour).RefillerMeta(colour).PaddingMeta(colour).TipMeta(colour)
	}
	return b.Build()
}

func c07BuildDecor(d c07Decor) decor.Decorator {
	wc := decor.WC{W: d.W, C: d.C}
	var unit interface{}
	switch d.Unit {
	case 1:
		unit = decor.SizeB1024(0)
	case 2:
		unit = decor.SizeB1000(0)
	}
	numfmt := d.Format
	if d.Unit == 0 && (numfmt == "%s" || strings.Contains(numfmt, "f") || numfmt == "%e") {
		numfmt = "%d" // plain int64 values
	}
	var dec decor.Decorator
	start := time.Now().Add(-90 * time.Second)
	switch d.Kind {
	case "name":
		dec = decor.Name(d.Text, wc)
	case "any":
		dec = decor.Any(func(s decor.Statistics) string { return fmt.Sprintf("%s%d", d.Text, s.Current%10) }, wc)
	case "percentage":
		f := d.Format
		if f == "%s" || f == "%v" {
			f = ""
		}
		dec = decor.NewPercentage(f, wc)
	case "counters":
		pf := ""
		if numfmt != "" {
			pf = numfmt + " / " + numfmt
		}
		dec = decor.Counters(unit, pf, wc)
	case "total":
		dec = decor.Total(unit, numfmt, wc)
	case "current":
		dec = decor.Current(unit, numfmt, wc)
	case "inverted":
		dec = decor.InvertedCurrent(unit, numfmt, wc)
	case "elapsed":
		dec = decor.NewElapsed(decor.TimeStyle(d.W%4), start, wc)
	case "spinner":
		var fr []string
		if d.Text != "" {
			fr = []string{d.Text, "世", "|"}
		}
		dec = decor.Spinner(fr, wc)
	case "avgeta":
		dec = decor.NewAverageETA(decor.TimeStyle(d.W%4), start, nil, wc)
	case "avgspeed":
		f := d.Format
		if d.Unit == 0 {
			f = ""
		}
		dec = decor.NewAverageSpeed(unit, f, start, wc)
	case "ewmaeta":
		dec = decor.EwmaETA(decor.TimeStyle(d.W%4), 30, wc)
	case "ewmaspeed":
		f := d.Format
		if d.Unit == 0 {
			f = ""
		}
		dec = decor.EwmaSpeed(unit, f, 30, wc)
	default:
		dec = decor.Name(d.Text, wc)
	}
	for _, w := range d.Wrap {
		switch w {
		case "oncomplete":
			dec = decor.OnComplete(dec, "done 完了")
		case "onabort":
			dec = decor.OnAbort(dec, "aborted")
		case "meta":
			dec = decor.Meta(dec, colour)
		case "oncompletemeta":
			dec = decor.OnCompleteMeta(dec, colour)
		case "onabortmeta":
			dec = decor.OnAbortMeta(dec, colour)
		case "ocoa":
			dec = decor.OnCompleteOrOnAbort(dec, "fin")
		case "ocmoam":
			dec = decor.OnCompleteMetaOrOnAbortMeta(dec, colour)
		}
	}
	return dec
}

// guard runs fn in a goroutine and reports non-termination. A normal call
// takes microseconds; verdict "does not terminate" = still running after 10 s,
// or the heap grew by more than 256 MiB (the loops append while spinning).
func guardTermination(prop string, c interface{}, fn func()) error {
	done := make(chan struct{})
	var ms runtime.MemStats
	go func() {
		defer close(done)
		fn()
	}()
	select {
	case <-done:
		return nil
	case <-time.After(300 * time.Millisecond):
	}
	runtime.ReadMemStats(&ms)
	base := ms.HeapAlloc
	start := time.Now()
	for {
		select {
		case <-done:
			return nil
		case <-time.After(50 * time.Millisecond):
		}
		runtime.ReadMemStats(&ms)
		if ms.HeapAlloc > base+256<<20 || time.Since(start) > 10*time.Second {
			// the spinning goroutine cannot be stopped: record and leave at once
			msg := fmt.Sprintf("rendering does not terminate (still running after %v, heap +%d MiB)", time.Since(start)+300*time.Millisecond, (ms.HeapAlloc-base)>>20)
			vstat.Fail(prop, "nontermination", c, msg)
			vstat.Case(c, true, "nontermination")
			vstat.Flush()
			fmt.Printf("property %s violated (nontermination): %s\n", prop, msg)
			exitNow(1)
		}
	}
}

var exitNow = func(code int) { osExit(code) }

func c07Stat(c *c07Case) decor.Statistics {
	return decor.Statistics{AvailableWidth: c.TW, RequestedWidth: c.Requested, ID: 1, Total: c.Total, Current: c.Current,
		Refill: c.Refill, Completed: c.Completed, Aborted: c.Aborted}
}

func effWidth(req, avail int) int {
	if req < 1 || req > avail {
		return avail
	}
	return req
}

// checkBody judges one Fill output of the generated style for allotted width w.
func c07CheckBody(s c07Style, out string, allotted int) error {
	if !utf8.ValidString(out) {
		return fmt.Errorf("filler output is not valid UTF-8: %q", out)
	}
	got := c07Width(out)
	switch s.Kind {
	case "nop":
		if out != "" {
			return fmt.Errorf("nop filler wrote %q", out)
		}
	case "spinner":
		if got != 0 && got != allotted {
			return fmt.Errorf("spinner body width %d, allotted %d: %q", got, allotted, out)
		}
		if got > allotted {
			return fmt.Errorf("spinner overflows: %d > %d", got, allotted)
		}
	default:
		inner := allotted - runewidth.StringWidth(s.Lbound) - runewidth.StringWidth(s.Rbound)
		if inner < 0 {
			if out != "" {
				return fmt.Errorf("brackets do not fit in %d but body %q was drawn", allotted, out)
			}
			return nil
		}
		if got != allotted {
			return fmt.Errorf("bar body has display width %d, allotted %d: %q", got, allotted, out)
		}
	}
	return nil
}

func runC07(ci interface{}) Result {
	c := ci.(*c07Case)
	var r Result
	r.Classes = append(r.Classes, "mode:"+c.Mode, "style:"+c.Style.Kind)
	st := c.Style
	nt := false
	if st.Kind == "bar" {
		for _, s := range append([]string{st.Lbound, st.Rbound, st.Filler, st.Refiller, st.Padding}, st.Tips...) {
			if w := runewidth.StringWidth(s); w != 1 {
				nt = true
				if w == 0 {
					r.Classes = append(r.Classes, "zero-width-component")
				} else {
					r.Classes = append(r.Classes, "wide-component")
				}
			}
		}
		for _, tp := range st.Tips {
			if runewidth.StringWidth(tp) > 1 {
				r.Classes = append(r.Classes, "wide-tip")
			}
		}
		if len(st.Tips) > 1 {
			r.Classes = append(r.Classes, "multi-tip")
		}
	}
	if c.Refill > 0 {
		nt = true
	}
	if c.Requested > c.TW {
		nt = true
	}
	switch c.Mode {
	case "frames":
		r.Kind = "frames"
		tr := engine.Run(c.Scen, engine.Options{})
		if tr.Hang != nil && tr.Inconclusive == "" {
			// "rendering always terminates": a deadlock with a goroutine stuck inside a
			// bar's render (its filler, a decorator's Format, the width exchange) is a
			// frame that is never finished; other hangs are C01's
			where := fmt.Sprint(tr.Hang.Where)
			for _, fn := range []string{".(*Bar).render", "WC).Format", ".Fill", "maxWidthDistributor", ".Decor"} {
				if strings.Contains(where, fn) {
					r.Err = fmt.Errorf("%s at %s with a goroutine inside a bar's rendering (%s): the frame is never finished; goroutines %v", tr.Hang.Kind, tr.Hang.AtStep, fn, tr.Hang.Where)
					r.Kind = "render-does-not-terminate"
					return r
				}
			}
		}
		if tr.Inconclusive != "" || tr.Hang != nil {
			r.Inconclusive = tr.Inconclusive != ""
			return r
		}
		hidden := false
		if sim := engine.Simulate(c.Scen); sim.OK && sim.Clipped {
			hidden = true
			r.Classes = append(r.Classes, "frames:clipped")
		}
		// terminal width at each render cycle (manual refresh: one cycle per tick)
		var colsAt []int
		cols, resized := c.Scen.Cfg.PtyCols, false
		for _, st := range c.Scen.Steps {
			switch {
			case st.Op == "resize":
				cols, resized = st.Bar, true
			case st.Op == "tick" || st.Op == "add" && st.Flag:
				colsAt = append(colsAt, cols)
			}
		}
		if resized {
			r.Classes = append(r.Classes, "frames:resized")
		}
		for k, f := range tr.Frames() {
			if f.Index >= len(colsAt) {
				continue
			}
			for _, ln := range f.Lines {
				if ln.Kind == "text" || ln.Kind == "ext" {
					continue // written by the program / by the program's extender: not the library's to cut
				}
				if w := c07Width(ln.Raw); w > colsAt[f.Index] {
					r.Err = fmt.Errorf("frame %d (render cycle %d): row %q has display width %d > terminal width %d", k, f.Index+1, ln.Raw, w, colsAt[f.Index])
					return r
				}
			}
		}
		nt = hidden
	case "fill":
		r.Err, r.Kind = c07RunFill(c), "fill"
		if c.TW < 6 {
			nt = true
		}
	case "decor":
		r.Err, r.Kind = c07RunDecor(c), "decor"
		nt = true
	case "row":
		var tight bool
		r.Err, tight = c07RunRow(c)
		r.Kind = "row"
		if tight {
			nt = true
			r.Classes = append(r.Classes, "row:decorators-exceed-width")
		}
		if c.Pty {
			r.Classes = append(r.Classes, "row:pty")
		}
	}
	r.Nontrivial = nt
	return r
}

func c07RunFill(c *c07Case) error {
	f := c07BuildFiller(c.Style)
	stat := c07Stat(c)
	allotted := effWidth(c.Requested, c.TW)
	var outs []string
	var ferr error
	if err := guardTermination("C07", c, func() {
		for i := 0; i < c.Reps; i++ {
			var buf bytes.Buffer
			if err := f.Fill(&buf, stat); err != nil {
				ferr = err
				return
			}
			outs = append(outs, buf.String())
		}
	}); err != nil {
		return err
	}
	if ferr != nil {
		return fmt.Errorf("Fill returned error %v", ferr)
	}
	for i, out := range outs {
		if err := c07CheckBody(c.Style, out, allotted); err != nil {
			return fmt.Errorf("call %d: %v", i+1, err)
		}
	}
	return nil
}

// serveSync plays the width distributor for a single decorator.
func serveSync(d decor.Decorator, stop <-chan struct{}) {
	ch, ok := d.Sync()
	if !ok {
		return
	}
	go func() {
		for {
			select {
			case w := <-ch:
				ch <- w
			case <-stop:
				return
			}
		}
	}()
}

func c07RunDecor(c *c07Case) error {
	d := c07BuildDecor(c.Decors[0])
	stop := make(chan struct{})
	defer close(stop)
	serveSync(d, stop)
	stat := c07Stat(c)
	if ew, ok := unwrapDecor(d).(decor.EwmaDecorator); ok {
		ew.EwmaUpdate(10, 20*time.Millisecond)
		ew.EwmaUpdate(0, 20*time.Millisecond)
		ew.EwmaUpdate(7, 5*time.Millisecond)
	}
	for i := 0; i < c.Reps; i++ {
		var str string
		var w int
		if err := guardTermination("C07", c, func() { str, w = d.Decor(stat) }); err != nil {
			return err
		}
		if !utf8.ValidString(str) {
			return fmt.Errorf("decorator returned invalid UTF-8 %q", str)
		}
		if got := c07Width(str); got != w && !(strings.Contains(c.Decors[0].Text, "\x1b") && w >= got) {
			// (a text with escape sequences of its own is measured with them: the decorator
			// then claims more room than it shows, which cannot make a row overflow)
			return fmt.Errorf("decorator %s reports width %d but its text %q has display width %d", c.Decors[0].Kind, w, str, got)
		}
		dd := c.Decors[0]
		if w < dd.W {
			return fmt.Errorf("decorator width %d below its minimum W=%d", w, dd.W)
		}
	}
	return nil
}

func unwrapDecor(d decor.Decorator) decor.Decorator {
	for {
		w, ok := d.(decor.Wrapper)
		if !ok {
			return d
		}
		d = w.Unwrap()
	}
}

type frameRecorder struct {
	mu     sync.Mutex
	chunks [][]byte
}

func (f *frameRecorder) Write(p []byte) (int, error) {
	f.mu.Lock()
	f.chunks = append(f.chunks, append([]byte(nil), p...))
	f.mu.Unlock()
	return len(p), nil
}

func (f *frameRecorder) snapshot() [][]byte {
	f.mu.Lock()
	defer f.mu.Unlock()
	return append([][]byte(nil), f.chunks...)
}

// c07RunRow renders frames of a one-bar container and judges every row.
func c07RunRow(c *c07Case) (error, bool) {
	var pre, app []decor.Decorator
	texts := map[bool][]c07Decor{}
	for _, d := range c.Decors {
		if d.Append {
			app = append(app, c07BuildDecor(d))
		} else {
			pre = append(pre, c07BuildDecor(d))
		}
		texts[d.Append] = append(texts[d.Append], d)
	}
	rec := &frameRecorder{}
	manual := make(chan interface{})
	ctx, cancel := context.WithCancel(context.Background())
	defer cancel()
	opts := []mpb.ContainerOption{mpb.WithManualRefresh(manual)}
	var pt *vpty.Pty
	if c.Pty {
		var err error
		pt, err = vpty.Open(24, c.TW)
		if err != nil {
			return nil, false // no pty available: nothing to judge
		}
		defer pt.Close()
		opts = append(opts, mpb.WithOutput(pt.Slave))
		if c.Requested > 0 {
			opts = append(opts, mpb.WithWidth(c.Requested))
		}
	} else {
		opts = append(opts, mpb.WithOutput(rec))
		if c.TW > 0 {
			opts = append(opts, mpb.WithWidth(c.TW))
		}
	}
	tw := c.TW
	if !c.Pty && tw <= 0 {
		tw = 80
	}
	p := mpb.NewWithContext(ctx, opts...)
	bopts := []mpb.BarOption{mpb.PrependDecorators(pre...), mpb.AppendDecorators(app...)}
	if c.Trim {
		bopts = append(bopts, mpb.BarFillerTrim())
	}
	req := c.Requested
	if !c.Pty {
		// WithWidth sets both the "terminal" width and the requested width
		req = c.TW
		if c.Requested != 0 {
			bopts = append(bopts, mpb.BarWidth(c.Requested))
			req = c.Requested
		}
	}
	total := c.Total
	bar, err := p.Add(total, c07BuildFiller(c.Style), bopts...)
	if err != nil {
		return fmt.Errorf("Add: %v", err), false
	}
	if c.Refill > 0 {
		bar.SetCurrent(c.Refill)
		bar.SetRefill(c.Refill)
	}
	completes := total > 0 && c.Current >= total
	if !completes {
		bar.SetCurrent(c.Current)
	}
	tick := func() bool {
		select {
		case manual <- time.Now():
			return true
		case <-time.After(20 * time.Second):
			return false
		}
	}
	var hang error
	if err := guardTermination("C07", c, func() {
		// three accepted ticks guarantee that the first frame was flushed
		n := c.Reps + 2
		for i := 0; i < n; i++ {
			if i == 1 && completes {
				bar.SetCurrent(c.Current)
			}
			if !tick() {
				hang = fmt.Errorf("render request not accepted within 20s")
				return
			}
		}
	}); err != nil {
		return err, false
	}
	if !completes {
		bar.Abort(false)
	}
	cancel()
	p.Wait()
	if hang != nil {
		return nil, false // judged by C01/C02, not by this property
	}
	var rows []string
	nbytes := 0
	if c.Pty {
		b, err := pt.Sync()
		if err != nil {
			return nil, false
		}
		nbytes = len(b)
		rows = splitRows(string(b))
	} else {
		for _, ch := range rec.snapshot() {
			nbytes += len(ch)
			rows = append(rows, splitRows(string(ch))...)
		}
	}
	if nbytes == 0 {
		return fmt.Errorf("no frame was written"), false
	}
	// model of the decorator part
	need := 0
	for _, d := range c.Decors {
		need += c07Need(d)
	}
	tight := need > tw-4
	for i, row := range rows {
		if !utf8.ValidString(row) {
			return fmt.Errorf("row %d is not valid UTF-8: %q", i, row), tight
		}
		if w := c07Width(row); w > tw {
			return fmt.Errorf("row %d has display width %d > terminal width %d: %q", i, w, tw, row), tight
		}
	}
	// exact layout for rows whose decorator texts are static (name decorators)
	static := true
	for _, d := range c.Decors {
		if d.Kind != "name" || len(d.Wrap) != 0 || strings.Contains(d.Text, "\x1b") {
			static = false
		}
	}
	if static {
		for i, row := range rows {
			if err := c07CheckLayout(c, row, tw, req); err != nil {
				return fmt.Errorf("row %d: %v", i, err), tight
			}
		}
	}
	return nil, tight
}

func splitRows(s string) []string {
	var rows []string
	for _, ln := range strings.Split(s, "\n") {
		ln = strings.TrimSuffix(ln, "\r")
		// drop the cursor-up + erase prefix of a frame
		for strings.HasPrefix(ln, "\x1b[") {
			j := strings.IndexAny(ln[2:], "AJ")
			if j < 0 {
				break
			}
			ln = ln[2+j+1:]
		}
		if ln != "" {
			rows = append(rows, ln)
		}
	}
	return rows
}

func c07Need(d c07Decor) int {
	w := runewidth.StringWidth(d.Text)
	if d.W > w {
		return d.W
	}
	if d.C&decor.DextraSpace != 0 {
		return w + 1
	}
	return w
}

// c07CheckLayout predicts the decorator prefix/suffix of a row made of Name
// decorators only, and checks the body between them occupies its allotment.
func c07CheckLayout(c *c07Case, row string, tw, req int) error {
	avail := tw
	var pre, app strings.Builder
	render := func(d c07Decor, out *strings.Builder) error {
		need := c07Need(d)
		var field string
		if d.C&decor.DindentRight != 0 {
			field = runewidth.FillRight(d.Text, need)
		} else {
			field = runewidth.FillLeft(d.Text, need)
		}
		if avail-need >= 0 {
			out.WriteString(field)
			avail -= need
		} else if avail > 0 {
			cut := runewidth.Truncate(field, avail, "…")
			if !strings.HasSuffix(cut, "…") || runewidth.StringWidth(cut) > avail {
				return fmt.Errorf("model: truncation of %q to %d gave %q", field, avail, cut)
			}
			out.WriteString(cut)
			avail = 0
		}
		return nil
	}
	for _, d := range c.Decors {
		if !d.Append {
			if err := render(d, &pre); err != nil {
				return err
			}
		}
	}
	for _, d := range c.Decors {
		if d.Append {
			if err := render(d, &app); err != nil {
				return err
			}
		}
	}
	sp := ""
	if !(c.Trim || avail < 2) {
		avail -= 2
		sp = " "
	}
	if !strings.HasPrefix(row, pre.String()+sp) {
		return fmt.Errorf("row %q does not start with the prepended decorators %q (cut with an ellipsis when they do not fit)", row, pre.String()+sp)
	}
	rest := strings.TrimPrefix(row, pre.String()+sp)
	if !strings.HasSuffix(rest, sp+app.String()) {
		return fmt.Errorf("row %q does not end with the appended decorators %q", row, sp+app.String())
	}
	body := strings.TrimSuffix(rest, sp+app.String())
	allotted := effWidth(req, avail)
	return c07CheckBody(c.Style, body, allotted)
}
