package props

import (
	"bytes"
	"errors"
	"fmt"
	"strings"

	mpb "github.com/vbauerster/mpb/v8"
	"pgregory.net/rapid"
	"verif/harness/engine"
	"verif/harness/vstat"
)

// C13 — text written through the container appears once, in order, above the bars.
//
// 1-4 writer goroutines issue uniquely tagged, newline-terminated payloads
// (from a buffer that is overwritten as soon as Write returns) while render
// cycles, completions, the final render, Wait and Shutdown go on. Oracle over
// the recorded output chunks and the invoke/return sequence numbers of every
// Write: a successful write is found exactly once, unmodified, as whole lines
// at the top of a frame (after the cursor controls, before the first bar row),
// in an order consistent with the real-time order of the calls, and — when the
// container refreshes itself — no later than the last frame written before
// Wait returned; a write that returned ErrDone left no byte; writes after Wait
// return (0, ErrDone).

func init() {
	register(&Prop{ID: "C13", Gen: genC13, New: func() interface{} { return new(engine.Scenario) }, Run: runC13, Journal: true})
}

var profC13 = ConcProfile{
	Profile: Profile{
		MaxBars: 5, MinBars: 1, Refresh: []string{"autort", "autort", "autoinj", "autoinj", "manual"}, QLens: []int{-1, -1, 0, -2},
		Pop: 25, Queue: 10, Prio: true, Ext: 15, Text: 3, Rm: 25, NoPop: 15, AbortW: 2,
		SyncDecors: 1, PlainDecors: 1, Fillers: []string{"tag", "bar"},
	},
	MaxBlocks: 4, MaxBlockOps: 14, Pars: 2, CancelIn: 35, PerturbMax: 2, HoldPct: 25, SyncPct: 30, WriteBoost: 45,
}

// profC13Seq: clocked histories in which the same line is written in several
// consecutive frames while the bars do not change (a frame can then be
// byte-identical to the previous one).
var profC13Seq = Profile{
	MaxBars: 3, MinBars: 1, MaxSteps: 25, Refresh: []string{"manual", "autoinj"}, QLens: []int{-1},
	Pop: 20, Rm: 30, AbortW: 1, TicksW: 6, Text: 3, RepeatText: 5, StaticTexts: true,
	PlainDecors: 1, Fillers: []string{"tag", "nop"}, LateAdd: true, Delay: 25,
}

func genC13(t *rapid.T) interface{} {
	excludedKnown = 0
	if rapid.IntRange(0, 3).Draw(t, "sequential") == 0 {
		sc := genScenario(t, &profC13Seq)
		c13Unterminate(t, sc)
		vstat.Excluded(excludedKnown)
		return sc
	}
	sc := genConcurrent(t, &profC13)
	// a few late writes after Wait (an empty one among them)
	n := rapid.IntRange(0, 3).Draw(t, "nlatewrites")
	for k := 0; k < n; k++ {
		txt := fmt.Sprintf("wL.%d:after wait\n", k)
		if rapid.IntRange(0, 3).Draw(t, "lateempty") == 0 {
			txt = ""
		}
		sc.Late = append(sc.Late, engine.Step{Op: "write", Text: txt})
	}
	c13Unterminate(t, sc)
	// a few very long lines (beyond the 32 KiB chunk size of io.Copy-style loops)
	if rapid.IntRange(0, 5).Draw(t, "hugewrites") == 0 {
		left := rapid.IntRange(1, 3).Draw(t, "nhuge")
		for si := range sc.Steps {
			for bi := range sc.Steps[si].Par {
				blk := sc.Steps[si].Par[bi]
				for k := range blk {
					if left > 0 && blk[k].Op == "write" && strings.HasSuffix(blk[k].Text, "\n") && rapid.Bool().Draw(t, "hugehere") {
						n := rapid.IntRange(33000, 70000).Draw(t, "hugelen")
						blk[k].Text = strings.TrimSuffix(blk[k].Text, "\n") + strings.Repeat("0123456789", n/10) + "\n"
						left--
					}
				}
			}
		}
	}
	vstat.Excluded(excludedKnown)
	return sc
}

// c13Unterminate strips the trailing newline from the very last Write of the
// program now and then (a prompt, a summary line printed with Fprint): its
// bytes must still come out, glued to whatever follows.
func c13Unterminate(t *rapid.T, sc *engine.Scenario) {
	if rapid.IntRange(0, 4).Draw(t, "unterminated") != 0 {
		return
	}
	// the last write step of the last block / of the sequential tail
	var last *engine.Step
	var walk func(sts []engine.Step)
	walk = func(sts []engine.Step) {
		for i := range sts {
			if sts[i].Op == "write" && len(sts[i].Par) == 0 {
				last = &sts[i]
			}
		}
	}
	if n := len(sc.Steps); n > 0 {
		if st := &sc.Steps[n-1]; len(st.Par) == 1 {
			walk(st.Par[0])
		} else if len(st.Par) == 0 {
			walk(sc.Steps)
		}
	}
	if last != nil && strings.HasSuffix(last.Text, "\n") && strings.HasPrefix(last.Text, "w") && !strings.HasPrefix(last.Text, "wR.") {
		last.Text = strings.TrimSuffix(last.Text, "\n")
	}
}

func runC13(ci interface{}) Result {
	sc := ci.(*engine.Scenario)
	var r Result
	tr := engine.Run(sc, engine.Options{})
	if tr.Inconclusive != "" {
		r.Inconclusive = true
		return r
	}
	if tr.Hang != nil {
		dumpHang(sc, tr)
		if strings.HasPrefix(tr.Hang.AtStep, "late call") && strings.Contains(tr.Hang.AtStep, " write ") {
			// "A Write that begins after Wait has returned emits nothing and returns (0, ErrDone)"
			r.Err, r.Kind = fmt.Errorf("a Write that began after Wait had returned does not return (%s): %v", tr.Hang.AtStep, tr.Hang.Where), "late-write-hangs"
			return r
		}
		vstat.Class("hang-left-to-C01", 1)
		return r
	}
	r.Classes = append(append(r.Classes, "refresh:"+sc.Cfg.Refresh), featureClasses(sc)...)
	auto := sc.Cfg.Refresh == "autort" || sc.Cfg.Refresh == "autoinj"
	// concatenate the chunks, remember where each starts
	var all []byte
	var starts []int
	for _, c := range tr.Chunks {
		starts = append(starts, len(all))
		all = append(all, c.Data...)
	}
	chunkOf := func(pos int) int {
		k := 0
		for i, s := range starts {
			if s <= pos {
				k = i
			}
		}
		return k
	}
	// frame structure: inside a chunk, text lines come first
	frames := tr.Frames()
	for k, f := range frames {
		if f.BadCtl != "" {
			r.Err, r.Kind = fmt.Errorf("frame %d: %s", k, f.BadCtl), "control"
			return r
		}
		seenRow := false
		for _, ln := range f.Lines {
			if ln.Kind == "text" {
				if seenRow {
					r.Err, r.Kind = fmt.Errorf("frame %d: text line %q comes after a bar row: %q", k, ln.Raw, f.Raw), "position"
					return r
				}
			} else {
				seenRow = true
			}
		}
	}
	// "above the bar rows of the frame that carries them": what a terminal makes of
	// the output. Outside pop-completed mode (where finished bars stay on screen
	// above later text) no bar row may ever stand above a line of text, and no bar
	// may be on screen twice: text that is emitted without the frame's cursor
	// movement lands below the previous frame's rows and leaves a stale row.
	allNL := true
	for i := range tr.Writes {
		if w := &tr.Writes[i]; w.Err == nil && len(w.Text) > 0 && !strings.HasSuffix(w.Text, "\n") {
			allNL = false
		}
	}
	if !sc.Cfg.Pop && tr.PtyStream == nil && allNL {
		vt := engine.NewVT(0, 0)
		for k := range frames {
			vt.Feed(frames[k].Raw)
			if len(vt.Errors) > 0 {
				break // terminal arithmetic is C04's business
			}
			barAbove, seenBar := -1, map[int]int{}
			for idx, ln := range vt.Lines() {
				pf := engine.ParseFrame(0, 0, []byte(ln+"\n"))
				if len(pf.Lines) != 1 {
					continue
				}
				switch l := pf.Lines[0]; l.Kind {
				case "bar":
					barAbove = idx
					seenBar[l.Bar]++
					if seenBar[l.Bar] == 2 {
						r.Err, r.Kind = fmt.Errorf("after chunk %d (%q) bar %d is on the terminal twice: %q", k, frames[k].Raw, l.Bar, vt.Lines()), "stale-row"
						return r
					}
				case "ext":
					barAbove = idx
				case "text":
					if barAbove >= 0 && strings.TrimSpace(ln) != "" {
						r.Err, r.Kind = fmt.Errorf("after chunk %d (%q) the text line %q stands below a bar row on the terminal: %q", k, frames[k].Raw, ln, vt.Lines()), "text-below-bars"
						return r
					}
				}
			}
		}
		r.Classes = append(r.Classes, "terminal-view-checked")
	}
	type placed struct {
		w   *engine.WriteRec
		pos int
	}
	var ok []placed
	overlapped, errdone := false, false
	inProgram := len(tr.Writes) - len(tr.LateWrites)
	// the same payload may be written several times (heartbeat lines): it must
	// then be in the output exactly as many times as it was accepted
	succ := map[string]int{}
	for i := range tr.Writes[:inProgram] {
		if w := &tr.Writes[i]; w.Err == nil && w.N == len(w.Text) {
			succ[w.Text]++
		}
	}
	// manual refresh: text accepted after the last frame the program asked for stays unflushed
	tail := map[string]int{}
	if !auto {
		lastEnd := int64(0)
		for _, e := range tr.Events {
			if e.Point == "render.end" {
				lastEnd = e.Seq
			}
		}
		var lastBegin int64
		for _, e := range tr.Events {
			if e.Point == "render.begin" {
				lastBegin = e.Seq
			}
		}
		_ = lastEnd
		for i := range tr.Writes[:inProgram] {
			if w := &tr.Writes[i]; w.Err == nil && w.N == len(w.Text) && w.RetSeq > lastBegin {
				tail[w.Text]++
			}
		}
	}
	// render delay: text accepted while the delay is pending is dropped by design
	// ("whose rendering has started"); once the delay has been released every
	// accepted write counts
	pre := map[string]int{}
	if sc.Cfg.Delay {
		relSeq := int64(1) << 62
		for _, e := range tr.Events {
			if e.Point == "client.release" {
				relSeq = e.Seq
				break
			}
		}
		npost := 0
		for i := range tr.Writes[:inProgram] {
			if w := &tr.Writes[i]; w.Err == nil && w.N == len(w.Text) {
				if w.InvSeq < relSeq {
					pre[w.Text]++
				} else {
					npost++
				}
			}
		}
		if npost > 0 {
			r.Classes = append(r.Classes, "write-after-delay")
		}
	}
	for i := range tr.Writes[:inProgram] {
		if len(tr.Writes[i].Text) > 32768 {
			r.Classes = append(r.Classes, "write>32KiB")
			break
		}
	}
	repeated := false
	for i := range tr.Writes[:inProgram] {
		w := &tr.Writes[i]
		payload := []byte(w.Text)
		n := bytes.Count(all, payload)
		switch {
		case w.Err == nil && w.N == len(w.Text):
			want := succ[w.Text]
			if want > 1 {
				repeated = true
			}
			if n > want || n < want-tail[w.Text]-pre[w.Text] {
				r.Err, r.Kind = fmt.Errorf("Write(%q) reported success %d time(s) but its bytes occur %d time(s) in the output", c13clip(w.Text), want, n), "count"
				return r
			}
			if n == 0 || want > 1 {
				continue // nothing to place, or occurrences cannot be told apart
			}
			pos := bytes.Index(all, payload)
			// at the start of a line: preceded by a newline, the start of a chunk, or the cursor controls
			if pos > 0 && all[pos-1] != '\n' && all[pos-1] != 'J' {
				inChunkStart := false
				for _, s := range starts {
					if s == pos {
						inChunkStart = true
					}
				}
				if !inChunkStart {
					r.Err, r.Kind = fmt.Errorf("Write(%q): its bytes do not start a line (preceded by %q)", c13clip(w.Text), all[pos-1]), "position"
					return r
				}
			}
			ck := chunkOf(pos)
			if auto && ck >= tr.ChunksAtWait {
				r.Err, r.Kind = fmt.Errorf("Write(%q) succeeded but was emitted in chunk %d, after Wait had returned (%d chunks before)", c13clip(w.Text), ck, tr.ChunksAtWait), "late"
				return r
			}
			ok = append(ok, placed{w, pos})
		case errors.Is(w.Err, mpb.ErrDone) && w.N == 0:
			errdone = true
			if succ[w.Text] == 0 && n != 0 {
				r.Err, r.Kind = fmt.Errorf("Write(%q) returned (0, ErrDone) but its bytes are in the output", c13clip(w.Text)), "errdone-emitted"
				return r
			}
		default:
			r.Err, r.Kind = fmt.Errorf("Write(%q) returned (%d, %v): neither success nor (0, ErrDone)", c13clip(w.Text), w.N, w.Err), "result"
			return r
		}
	}
	if repeated {
		r.Classes = append(r.Classes, "repeated-payload")
	}
	// the '#' scribble of a recycled buffer must never reach the output
	if bytes.Contains(all, []byte("###")) {
		r.Err, r.Kind = fmt.Errorf("the output contains bytes of a caller buffer that was reused after Write returned: %q", firstLineWith(all, "###")), "retained-buffer"
		return r
	}
	// real-time order
	for i := range ok {
		for j := range ok {
			if ok[i].w.RetSeq < ok[j].w.InvSeq && ok[i].pos > ok[j].pos {
				r.Err, r.Kind = fmt.Errorf("Write(%q) returned before Write(%q) was called but appears after it in the output", c13clip(ok[i].w.Text), c13clip(ok[j].w.Text)), "order"
				return r
			}
		}
	}
	// late writes
	for _, w := range tr.LateWrites {
		if w.N != 0 || !errors.Is(w.Err, mpb.ErrDone) {
			r.Err, r.Kind = fmt.Errorf("Write after Wait returned (%d, %v), want (0, ErrDone)", w.N, w.Err), "late-write"
			return r
		}
		if w.Text != "" && bytes.Contains(all, []byte(w.Text)) {
			r.Err, r.Kind = fmt.Errorf("Write after Wait emitted %q", c13clip(w.Text)), "late-write"
			return r
		}
	}
	if tr.LateChunks > 0 {
		r.Err, r.Kind = fmt.Errorf("%d write(s) reached the output after Wait had returned", tr.LateChunks), "late-output"
		return r
	}
	// did a successful write overlap a render cycle or the done path?
	var cyc [][2]int64
	var begin int64
	for _, e := range tr.Events {
		switch e.Point {
		case "render.begin":
			begin = e.Seq
		case "render.end":
			cyc = append(cyc, [2]int64{begin, e.Seq})
		}
	}
	for _, p := range ok {
		for _, c := range cyc {
			if p.w.InvSeq < c[1] && p.w.RetSeq > c[0] {
				overlapped = true
			}
		}
	}
	if overlapped {
		r.Classes = append(r.Classes, "write-overlaps-render")
	}
	if errdone {
		r.Classes = append(r.Classes, "write-errdone")
	}
	if len(ok) >= 2 {
		r.Classes = append(r.Classes, "writes>=2")
	}
	if tr.CancelSeq != 0 {
		r.Classes = append(r.Classes, "cancelled")
	}
	if strings.Contains(fmt.Sprint(sc.Late), "write") {
		r.Classes = append(r.Classes, "late-write")
	}
	for i := range tr.Writes[:inProgram] {
		if w := &tr.Writes[i]; w.Err == nil && !strings.HasSuffix(w.Text, "\n") {
			r.Classes = append(r.Classes, "unterminated-write")
			break
		}
	}
	r.Nontrivial = len(ok) >= 1 && (overlapped || errdone)
	return r
}

func firstLineWith(all []byte, sub string) string {
	for _, ln := range strings.Split(string(all), "\n") {
		if strings.Contains(ln, sub) {
			return ln
		}
	}
	return ""
}

// c13clip shortens a payload for messages.
func c13clip(s string) string {
	if len(s) > 90 {
		return s[:60] + fmt.Sprintf("...(%d bytes)...", len(s)) + s[len(s)-10:]
	}
	return s
}
