package props

import (
	"fmt"

	"pgregory.net/rapid"
	"verif/harness/engine"
	"verif/harness/vstat"
)

// C11 — a bar's terminal state is exclusive and never changes.
//
// Histories continue after the terminal event (abort, completion) with further
// non-decreasing updates, aborts, SetTotal, EnableTriggerComplete, render
// cycles, Bar.Wait, cancel/Shutdown and Progress.Wait, in all four refresh
// regimes (with injected auto refresh the bar goroutine outlives the terminal
// event, so later operations are really executed). Oracle: invariants over the
// sequence of (Completed, Aborted) pairs read by the client and over the state
// shown by the row tags frame by frame, plus agreement with the first terminal
// event of the program.

func init() {
	register(&Prop{ID: "C11", Gen: genC11, New: func() interface{} { return new(engine.Scenario) }, Run: runC11, Journal: true})
}

var profC11 = Profile{
	MaxBars: 3, MinBars: 1, MaxSteps: 40, Refresh: []string{"autoinj", "autoinj", "manual", "none", "autort"}, QLens: []int{-1},
	Pop: 15, Queue: 10, Rm: 20, AbortW: 5, TicksW: 5, Gets: 6, PostTerm: true, PostTermWait: true, Cancel: 20,
	Fillers: []string{"tag"}, LateAdd: true, OnCompleteFill: 20, Faults: 12, AddAfterCancel: 50,
}

func genC11(t *rapid.T) interface{} {
	excludedKnown = 0
	sc := genScenario(t, &profC11)
	if sc.Cfg.Refresh == "manual" {
		excludedKnown += int64(repairQueue(sc))
	}
	vstat.Excluded(excludedKnown)
	return sc
}

type c11Obs struct {
	c, a  bool
	where string
}

func c11CheckSeq(bar int, seq []c11Obs, what string) error {
	sawC, sawA := "", ""
	for _, o := range seq {
		if o.c && o.a {
			return fmt.Errorf("bar %d is reported both completed and aborted (%s, %s)", bar, what, o.where)
		}
		if sawC != "" && !o.c {
			return fmt.Errorf("bar %d: completed was true (%s) and later is false (%s; aborted=%v) [%s]", bar, sawC, o.where, o.a, what)
		}
		if sawA != "" && (!o.a || o.c) {
			return fmt.Errorf("bar %d: aborted was true (%s) and later completed=%v aborted=%v (%s) [%s]", bar, sawA, o.c, o.a, o.where, what)
		}
		if o.c && sawC == "" {
			sawC = o.where
		}
		if o.a && sawA == "" {
			sawA = o.where
		}
	}
	return nil
}

func runC11(ci interface{}) Result {
	sc := ci.(*engine.Scenario)
	var r Result
	tr := engine.Run(sc, engine.Options{})
	if tr.Inconclusive != "" {
		r.Inconclusive = true
		return r
	}
	if tr.Hang != nil {
		vstat.Class("hang-left-to-C01", 1)
		dumpHang(sc, tr)
		return r
	}
	r.Classes = append(append(r.Classes, "refresh:"+sc.Cfg.Refresh), featureClasses(sc)...)
	// getter observations in program order, then the reads after Wait
	gets := map[int][]c11Obs{}
	for _, g := range tr.Gets {
		gets[g.Bar] = append(gets[g.Bar], c11Obs{g.Completed, g.Aborted, fmt.Sprintf("getters at step %d", g.Step)})
	}
	for _, g := range tr.Final {
		gets[g.Bar] = append(gets[g.Bar], c11Obs{g.Completed, g.Aborted, "getters after Wait"})
	}
	for b, seq := range gets {
		if err := c11CheckSeq(b, seq, "client reads"); err != nil {
			r.Err, r.Kind = err, "getter-history"
			return r
		}
	}
	// two goroutines polling Completed and Aborted at the same time: each sees a
	// history of its own that obeys the same rules, and both agree with the read
	// made just before
	if len(tr.Polls) > 0 {
		r.Classes = append(r.Classes, "concurrent-getters")
	}
	for _, pr := range tr.Polls {
		var before *engine.GetRec
		for i := range tr.Gets {
			if tr.Gets[i].Step == pr.Step && tr.Gets[i].Bar == pr.Bar {
				before = &tr.Gets[i]
			}
		}
		seen := false
		for k, v := range pr.Vals {
			if seen && !v {
				r.Err, r.Kind = fmt.Errorf("bar %d, step %d: %s() polled by one goroutine (while another polls the other getter) returned true and later false (call %d of %d)", pr.Bar, pr.Step, pr.Getter, k+1, len(pr.Vals)), "getter-history"
				return r
			}
			seen = seen || v
			if before != nil {
				want, fixed := false, false
				switch {
				case before.Completed:
					want, fixed = pr.Getter == "completed", true
				case before.Aborted:
					want, fixed = pr.Getter == "aborted", true
				}
				if fixed && v != want {
					r.Err, r.Kind = fmt.Errorf("bar %d, step %d: the bar had just reported completed=%v aborted=%v, then %s() polled concurrently with the other getter returned %v (call %d of %d)", pr.Bar, pr.Step, before.Completed, before.Aborted, pr.Getter, v, k+1, len(pr.Vals)), "getter-history"
					return r
				}
			}
		}
	}
	// once Bar.Wait has returned the bar is in its final state: exactly one holds
	waitedAt := map[int]int{}
	for i, st := range sc.Steps {
		if st.Op == "barwait" {
			if _, ok := waitedAt[st.Bar]; !ok {
				waitedAt[st.Bar] = i
			}
		}
	}
	for _, g := range tr.Gets {
		if at, ok := waitedAt[g.Bar]; ok && g.Step > at {
			r.Classes = append(r.Classes, "getters-after-bar-wait")
			if g.Completed == g.Aborted {
				r.Err, r.Kind = fmt.Errorf("bar %d: Bar.Wait returned (step %d), then at step %d the bar reports completed=%v aborted=%v (exactly one must hold)", g.Bar, at, g.Step, g.Completed, g.Aborted), "after-bar-wait"
				return r
			}
		}
	}
	// what the frames show, frame by frame
	shown := map[int][]c11Obs{}
	for k, f := range tr.Frames() {
		for _, ln := range f.Lines {
			if ln.Kind == "bar" {
				shown[ln.Bar] = append(shown[ln.Bar], c11Obs{ln.Flag == "C" || ln.Flag == "X", ln.Flag == "A" || ln.Flag == "X", fmt.Sprintf("frame %d", k)})
			}
		}
	}
	for b, seq := range shown {
		if err := c11CheckSeq(b, seq, "row tags"); err != nil {
			r.Err, r.Kind = err, "frame-history"
			return r
		}
		// frames and the final reads must agree on the terminal kind
		if last := seq[len(seq)-1]; last.c || last.a {
			for _, g := range tr.Final {
				if g.Bar == b && (g.Completed != last.c || g.Aborted != last.a) {
					r.Err, r.Kind = fmt.Errorf("bar %d: last drawn as completed=%v aborted=%v, after Wait it reports completed=%v aborted=%v", b, last.c, last.a, g.Completed, g.Aborted), "frame-vs-getter"
					return r
				}
			}
		}
	}
	// after Wait exactly one of the two holds, and it is the first terminal event of the program
	end, cancelled, ok := engine.EndState(sc)
	if tr.OutputErrs > 0 {
		ok = false
		r.Classes = append(r.Classes, "render-fault")
	}
	for _, e := range tr.Events {
		if e.Point == "client.fillerr" || e.Point == "client.exterr" {
			// a render error cancels the container at a point the program does not
			// determine: only the history invariants above apply
			ok = false
			r.Classes = append(r.Classes, "render-fault")
			break
		}
	}
	postMut, postReads := false, 0
	for _, g := range tr.Final {
		if g.Completed == g.Aborted {
			r.Err, r.Kind = fmt.Errorf("bar %d after Wait: completed=%v aborted=%v (exactly one must hold)", g.Bar, g.Completed, g.Aborted), "final"
			return r
		}
		if g.Running {
			r.Err, r.Kind = fmt.Errorf("bar %d after Wait: IsRunning()=true", g.Bar), "final"
			return r
		}
		if ok {
			e := end[g.Bar]
			if e.ByCancel && !g.Aborted {
				r.Err, r.Kind = fmt.Errorf("bar %d was ended only by cancel/Shutdown but reports completed=%v aborted=%v", g.Bar, g.Completed, g.Aborted), "cancel-not-aborted"
				return r
			}
			if e.Completed != g.Completed || e.Aborted != g.Aborted {
				r.Err, r.Kind = fmt.Errorf("bar %d: the program's first terminal event makes it completed=%v aborted=%v, after Wait it reports completed=%v aborted=%v", g.Bar, e.Completed, e.Aborted, g.Completed, g.Aborted), "changed"
				return r
			}
		}
	}
	if cancelled {
		r.Classes = append(r.Classes, "cancelled")
	}
	// non-triviality: a mutator after the terminal event and reads after it
	if ok {
		ms := make([]*engine.MBar, len(sc.Bars))
		for i := range sc.Steps {
			st := &sc.Steps[i]
			if st.Op == "cancel" || st.Op == "shutdown" {
				break
			}
			if st.Bar < 0 || st.Bar >= len(ms) {
				continue
			}
			if st.Op == "add" {
				if ms[st.Bar] == nil {
					ms[st.Bar] = engine.NewMBar(sc.Bars[st.Bar].Total)
				}
				continue
			}
			m := ms[st.Bar]
			if m == nil {
				continue
			}
			if m.Terminal() {
				switch st.Op {
				case "incr", "setcur", "settotal", "etc", "abort":
					postMut = true
					if m.Abrt {
						r.Classes = append(r.Classes, "mutator-after-abort")
					} else {
						r.Classes = append(r.Classes, "mutator-after-complete")
					}
				case "get", "barwait":
					postReads++
				}
				continue
			}
			m.Apply(st)
		}
	}
	r.Nontrivial = postMut && postReads >= 1
	return r
}
