package props

import (
	"fmt"
	"sort"
	"strings"

	"github.com/acarl005/stripansi"
	"github.com/mattn/go-runewidth"
	"github.com/vbauerster/mpb/v8/decor"
	"pgregory.net/rapid"
	"verif/harness/engine"
	"verif/harness/vstat"
)

// C12 — width-synchronised decorators line up in every frame.
//
// Every decorator of every bar is wrapped by a recording probe. For each
// render cycle the oracle recomputes, from the text each decorator actually
// formatted, the width it needs by itself (minimum width, extra-space flag) and
// requires: a synchronised decorator returns exactly the largest need of its
// column (same side, same ordinal among the synchronised decorators of its
// bar) over the bars rendered in that cycle; a plain decorator returns its own
// need; the returned text is the formatted text padded to that width. Bars
// joining or leaving therefore change a column from the next cycle on only.

func init() {
	register(&Prop{ID: "C12", Gen: genC12, New: func() interface{} { return new(engine.Scenario) }, Run: runC12, Journal: true})
}

var profC12 = Profile{
	MaxBars: 8, MinBars: 2, MaxSteps: 40, Refresh: []string{"manual", "manual", "autoinj", "autort"}, QLens: []int{-1},
	Pop: 25, Queue: 20, LateSuccW: 2, Prio: true, Ext: 10, Rm: 30, NoPop: 20, AbortW: 3, TicksW: 10,
	SyncDecors: 3, PlainDecors: 1, Wraps: true, NoDecorPct: 10, ChurnW: 2, DisabledPct: 8, Fillers: []string{"tag", "nop", "bar"}, LateAdd: true, Cancel: 8,
}

func genC12(t *rapid.T) interface{} {
	excludedKnown = 0
	sc := genScenario(t, &profC12)
	if sc.Cfg.Refresh == "manual" {
		excludedKnown += int64(repairQueue(sc))
	}
	vstat.Excluded(excludedKnown)
	return sc
}

type c12Col struct {
	side, ord int
}

func runC12(ci interface{}) Result {
	sc := ci.(*engine.Scenario)
	var r Result
	tr := engine.Run(sc, engine.Options{})
	if tr.Inconclusive != "" {
		r.Inconclusive = true
		return r
	}
	if tr.Hang != nil {
		dumpHang(sc, tr)
		// a deadlock inside the width exchange (a synchronised decorator waiting for
		// its column's width, or a column's distributor waiting for a bar) is this
		// property's: a bar joining or leaving has disturbed the others for good
		where := fmt.Sprint(tr.Hang.Where)
		if tr.Hang.Kind == "deadlock" && (strings.Contains(where, "WC.Format") || strings.Contains(where, "WC).Format") || strings.Contains(where, "maxWidthDistributor")) {
			r.Err = fmt.Errorf("deadlock at %s inside the width exchange of synchronised decorators: no further frame is drawn; goroutines %v", tr.Hang.AtStep, tr.Hang.Where)
			r.Kind = "sync-deadlock"
			return r
		}
		vstat.Class("hang-left-to-C01", 1)
		return r
	}
	r.Classes = append(append(r.Classes, "refresh:"+sc.Cfg.Refresh), featureClasses(sc)...)
	// column of every synchronised decorator
	col := map[[2]int]c12Col{}
	for bi, b := range sc.Bars {
		ord := [2]int{}
		for di, d := range b.Decors {
			if d.Disabled {
				continue // switched off: the bar never gets it
			}
			if d.C&decor.DSyncWidth != 0 {
				col[[2]int{bi, di}] = c12Col{d.Side, ord[d.Side]}
				ord[d.Side]++
			}
		}
	}
	type entry struct {
		p    *engine.ProbeRec
		need int
		text string
	}
	byCycle := map[int64][]entry{}
	var cycles []int64
	for i := range tr.Probes {
		p := &tr.Probes[i]
		spec := &sc.Bars[p.Bar].Decors[p.Decor]
		text := p.Text
		if !p.InnerCalled {
			var sub bool
			text, sub = decorFinalText(spec.Wrap, p.Completed, p.Aborted)
			if !sub {
				r.Err, r.Kind = fmt.Errorf("cycle %d bar %d decorator %d (wrappers %v, completed=%v aborted=%v): the wrapped decorator was not asked although no wrapper substitutes a message", p.Cycle, p.Bar, p.Decor, spec.Wrap, p.Completed, p.Aborted), "not-called"
				return r
			}
		} else if m, sub := decorFinalText(spec.Wrap, p.Completed, p.Aborted); sub {
			r.Err, r.Kind = fmt.Errorf("cycle %d bar %d decorator %d: wrappers %v should show %q for completed=%v aborted=%v but the wrapped decorator was asked", p.Cycle, p.Bar, p.Decor, spec.Wrap, m, p.Completed, p.Aborted), "wrapper"
			return r
		}
		tw := runewidth.StringWidth(text)
		need := tw
		if spec.W > tw {
			need = spec.W
		} else if spec.C&decor.DextraSpace != 0 {
			need = tw + 1
		}
		if _, ok := byCycle[p.Cycle]; !ok {
			cycles = append(cycles, p.Cycle)
		}
		byCycle[p.Cycle] = append(byCycle[p.Cycle], entry{p, need, text})
	}
	sort.Slice(cycles, func(i, j int) bool { return cycles[i] < cycles[j] })
	shared, differ, memberChange := false, false, false
	var prevBars string
	// bars shown in the frame each cycle wrote (buffer output: one chunk per frame)
	var begins []int64
	for _, e := range tr.Events {
		if e.Point == "render.begin" {
			begins = append(begins, e.Seq)
		}
	}
	shownIn := map[int64]map[int]bool{}
	for _, f := range tr.Frames() {
		cyc := int64(sort.Search(len(begins), func(i int) bool { return begins[i] > f.Seq }))
		whole := f.BadCtl == "" && !f.Partial
		for _, ln := range f.Lines {
			if ln.Kind == "other" {
				whole = false // a row that was cut: the bar it belongs to cannot be told
			}
		}
		if !whole || shownIn[cyc] != nil {
			shownIn[cyc] = map[int]bool{-1: true} // not usable
			continue
		}
		shownIn[cyc] = map[int]bool{}
		for _, ln := range f.Lines {
			if ln.Kind == "bar" {
				shownIn[cyc][ln.Bar] = true
			}
		}
	}
	for _, cyc := range cycles {
		es := byCycle[cyc]
		// "one common width across all bars shown in that frame, equal to the largest
		// any of them needs": a bar that took part in the exchange but is not in the
		// frame must not be the one that sets the width
		if shown := shownIn[cyc]; shown != nil && !shown[-1] {
			maxShown, maxAll := map[c12Col]int{}, map[c12Col]int{}
			hidden := -1
			for _, e := range es {
				if c, ok := col[[2]int{e.p.Bar, e.p.Decor}]; ok {
					if e.need > maxAll[c] {
						maxAll[c] = e.need
					}
					if shown[e.p.Bar] {
						if e.need > maxShown[c] {
							maxShown[c] = e.need
						}
					} else {
						hidden = e.p.Bar
					}
				}
			}
			for c, w := range maxAll {
				if n, ok := maxShown[c]; ok && w > n {
					r.Err, r.Kind = fmt.Errorf("cycle %d: sync column %d on side %d is %d wide because of bar %d, which is not shown in that frame; the widest need among the bars shown is %d", cyc, c.ord, c.side, w, hidden, n), "width-of-absent-bar"
					return r
				}
			}
		}
		max := map[c12Col]int{}
		cnt := map[c12Col]map[int]bool{}
		bars := map[int]bool{}
		seen := map[[2]int]bool{}
		for _, e := range es {
			k := [2]int{e.p.Bar, e.p.Decor}
			if seen[k] {
				r.Err, r.Kind = fmt.Errorf("cycle %d: decorator %d of bar %d was asked twice", cyc, e.p.Decor, e.p.Bar), "twice"
				return r
			}
			seen[k] = true
			bars[e.p.Bar] = true
			if c, ok := col[k]; ok {
				if e.need > max[c] {
					max[c] = e.need
				}
				if cnt[c] == nil {
					cnt[c] = map[int]bool{}
				}
				cnt[c][e.need] = true
			}
		}
		for c, needs := range cnt {
			if len(needs) > 1 {
				differ = true
			}
			_ = c
		}
		nInCol := map[c12Col]int{}
		for _, e := range es {
			k := [2]int{e.p.Bar, e.p.Decor}
			spec := &sc.Bars[e.p.Bar].Decors[e.p.Decor]
			want := e.need
			c, sync := col[k]
			if sync {
				want = max[c]
				nInCol[c]++
			}
			if e.p.W != want {
				if sync {
					r.Err = fmt.Errorf("cycle %d: bar %d decorator %d (side %d, sync column %d, text %q, W=%d flags=%d) was given width %d, the widest need in that column over the bars of this frame is %d", cyc, e.p.Bar, e.p.Decor, c.side, c.ord, e.text, spec.W, spec.C, e.p.W, want)
				} else {
					r.Err = fmt.Errorf("cycle %d: bar %d decorator %d (not synchronised, text %q, W=%d flags=%d) reports width %d, needs %d", cyc, e.p.Bar, e.p.Decor, e.text, spec.W, spec.C, e.p.W, want)
				}
				r.Kind = "width"
				return r
			}
			plain := stripansi.Strip(e.p.Str)
			var exp string
			if spec.C&decor.DindentRight != 0 {
				exp = runewidth.FillRight(e.text, want)
			} else {
				exp = runewidth.FillLeft(e.text, want)
			}
			if plain != exp {
				r.Err, r.Kind = fmt.Errorf("cycle %d: bar %d decorator %d returned %q, want %q (text %q padded to %d)", cyc, e.p.Bar, e.p.Decor, plain, exp, e.text, want), "text"
				return r
			}
		}
		for _, n := range nInCol {
			if n >= 2 {
				shared = true
			}
		}
		cur := fmt.Sprint(sortedInts(bars))
		if prevBars != "" && cur != prevBars {
			memberChange = true
		}
		prevBars = cur
	}
	if shared {
		r.Classes = append(r.Classes, "shared-column")
	}
	if differ {
		r.Classes = append(r.Classes, "needs-differ")
	}
	if memberChange {
		r.Classes = append(r.Classes, "membership-change")
	}
	if sc.Cfg.Pop {
		r.Classes = append(r.Classes, "pop")
	}
	r.Nontrivial = shared && differ && memberChange
	return r
}
