package props

import (
	"encoding/json"
	"fmt"
	"os"
	"sort"

	"pgregory.net/rapid"
	"verif/harness/engine"
	"verif/harness/vstat"
)

// C05 — every bar in the container is drawn exactly once per frame.

func init() {
	register(&Prop{ID: "C05", Gen: genC05, New: func() interface{} { return new(engine.Scenario) }, Run: runC05, Journal: true})
}

var profC05 = Profile{
	MaxBars: 7, MaxSteps: 40, Refresh: []string{"manual", "manual", "manual", "autoinj"}, QLens: []int{-1, -1, -3, -4, 128},
	Pop: 30, Queue: 25, Prio: true, Ext: 20, Text: 1, Rm: 25, NoPop: 20, AbortW: 2, TicksW: 8, Notifier: 100,
	Fillers: []string{"bar", "tag", "nop", "spinner"}, LateAdd: true, Cancel: 15,
}

func genC05(t *rapid.T) interface{} {
	sc := genScenario(t, &profC05)
	excludedKnown = 0
	if sc.Cfg.Refresh == "manual" {
		excludedKnown += int64(repairQueue(sc))
	}
	vstat.Excluded(excludedKnown)
	return sc
}

// verdictOfTrace maps hangs / inconclusive runs; returns handled=true if the
// result is already decided.
func traceProblem(sc *engine.Scenario, tr *engine.Trace, r *Result, hangIsViolation bool) bool {
	if tr.Inconclusive != "" {
		r.Inconclusive = true
		vstat.Note("inconclusive: " + tr.Inconclusive)
		return true
	}
	if tr.Hang != nil {
		vstat.Note(fmt.Sprintf("hang %s at %s: %v", tr.Hang.Kind, tr.Hang.AtStep, tr.Hang.Where))
		if d := os.Getenv("VERIF_HANGDUMP"); d != "" {
			b, _ := json.Marshal(sc)
			_ = os.WriteFile(fmt.Sprintf("%s/hang-%x.json", d, vstat.HashBytes(b)), b, 0o644)
		}
		if hangIsViolation {
			r.Err = fmt.Errorf("%s at %s; goroutines: %v", tr.Hang.Kind, tr.Hang.AtStep, tr.Hang.Where)
			r.Kind = tr.Hang.Kind
			return true
		}
		// the property's own oracle still judges the partial trace; if it has
		// nothing to say the case is inconclusive for this property (see C01)
	}
	return false
}

func sortedInts(m map[int]bool) []int {
	var o []int
	for k := range m {
		o = append(o, k)
	}
	sort.Ints(o)
	return o
}

func runC05(ci interface{}) Result {
	sc := ci.(*engine.Scenario)
	var r Result
	tr := engine.Run(sc, engine.Options{})
	if traceProblem(sc, tr, &r, false) {
		return r
	}
	frames := tr.Frames()
	sim := engine.Simulate(sc)
	r.Classes = append(r.Classes, "refresh:"+sc.Cfg.Refresh)
	if sc.Cfg.Pop {
		r.Classes = append(r.Classes, "pop")
	}
	// history invariants (every regime): no bar twice in a frame; presence 0*1+0*
	first, last := map[int]int{}, map[int]int{}
	changes := 0
	var prevSet string
	for k, f := range frames {
		seen := map[int]int{}
		for _, b := range f.BarOrder() {
			seen[b]++
			if seen[b] > 1 {
				r.Err, r.Kind = fmt.Errorf("frame %d draws bar %d twice: %q", k, b, f.Raw), "duplicate"
				return r
			}
			if _, ok := first[b]; !ok {
				first[b] = k
			} else if last[b] != k-1 {
				r.Err, r.Kind = fmt.Errorf("bar %d vanished after frame %d and is back in frame %d", b, last[b], k), "vanish"
				return r
			}
			last[b] = k
		}
		cur := fmt.Sprint(f.BarOrder())
		if k > 0 && sameSet(prevSet, cur) == false {
			changes++
		}
		prevSet = cur
	}
	if tr.Hang != nil {
		r.Inconclusive = true
		return r
	}
	exact := sim.OK && (sc.Cfg.QueueLen < 0 || sc.Cfg.QueueLen >= len(sc.Bars)+1) && sc.Cfg.Width == 0
	if exact {
		r.Classes = append(r.Classes, "exact-model")
		if len(frames) != len(sim.Frames) {
			r.Err, r.Kind = fmt.Errorf("model predicts %d frames, output has %d", len(sim.Frames), len(frames)), "framecount"
			return r
		}
		for k, f := range frames {
			got := map[int]bool{}
			for _, b := range f.BarOrder() {
				got[b] = true
			}
			want := map[int]bool{}
			for _, b := range sim.Frames[k].Order {
				want[b] = true
			}
			if fmt.Sprint(sortedInts(got)) != fmt.Sprint(sortedInts(want)) {
				r.Err, r.Kind = fmt.Errorf("frame %d shows bars %v, model expects %v (frame %q)", k, sortedInts(got), sortedInts(want), f.Raw), "membership"
				return r
			}
		}
		if sc.Cfg.Notifier && len(tr.Notified) >= 1 {
			got := append([]int(nil), tr.Notified[0]...)
			sort.Ints(got)
			want := append([]int(nil), sim.FinalHeap...)
			sort.Ints(want)
			if fmt.Sprint(got) != fmt.Sprint(want) {
				r.Err, r.Kind = fmt.Errorf("shutdown notifier lists bars %v, container holds %v", got, want), "notifier"
				return r
			}
		}
	}
	if sc.Cfg.Notifier {
		if len(tr.Notified) != 1 {
			r.Err, r.Kind = fmt.Errorf("shutdown notifier delivered %d values, want 1", len(tr.Notified)), "notifier-count"
			return r
		}
		seen := map[int]bool{}
		for _, b := range tr.Notified[0] {
			if seen[b] || b < 0 {
				r.Err, r.Kind = fmt.Errorf("shutdown notifier list %v has a duplicate or unknown bar", tr.Notified[0]), "notifier"
				return r
			}
			seen[b] = true
		}
	}
	r.Nontrivial = len(frames) >= 3 && changes >= 1
	if changes >= 1 {
		r.Classes = append(r.Classes, "membership-change")
	}
	return r
}

func sameSet(a, b string) bool { return a == b }
