package props

import (
	"encoding/json"
	"fmt"
	"os"
	"sort"

	"pgregory.net/rapid"
	"verif/harness/engine"
	"verif/harness/vstat"
)

// C05 — every bar in the container is drawn exactly once per frame.

func init() {
	register(&Prop{ID: "C05", Gen: genC05, New: func() interface{} { return new(engine.Scenario) }, Run: runC05, Journal: true})
}

var profC05 = Profile{
	MaxBars: 7, MaxSteps: 40, Refresh: []string{"manual", "manual", "manual", "autoinj"}, QLens: []int{-1, -1, -3, -4, 128, 0, 1, -2},
	Pop: 30, Queue: 25, LateSuccW: 2, Prio: true, PrioOnFinished: true, Ext: 20, Text: 1, Rm: 25, NoPop: 20, AbortW: 2, TicksW: 8, Notifier: 100,
	Fillers: []string{"bar", "tag", "nop", "spinner", "spinnerv", "bartip"}, LateAdd: true, Cancel: 15, Pty: 20, PtyRowsMax: 8, Faults: 12, PrioMidRender: 15, AddTick: 10,
}

// profC05Conc: concurrent adders and updaters while render cycles run; judged by
// history invariants only (no exact prediction).
var profC05Conc = ConcProfile{
	Profile: Profile{
		MaxBars: 9, MinBars: 2, Refresh: []string{"autort", "autoinj", "manual"}, QLens: []int{-1, 0, 1, -2},
		Pop: 25, Prio: true, Text: 1, Rm: 25, NoPop: 15, AbortW: 2, Ext: 10, Notifier: 100,
		SyncDecors: 1, PlainDecors: 1, Fillers: []string{"tag", "bar"},
	},
	MaxBlocks: 4, MaxBlockOps: 10, Pars: 2, CancelIn: 0, PerturbMax: 2, HoldPct: 30, SyncPct: 40,
}

func genC05(t *rapid.T) interface{} {
	excludedKnown = 0
	if rapid.IntRange(0, 3).Draw(t, "concurrent") == 0 {
		sc := genConcurrent(t, &profC05Conc)
		vstat.Excluded(excludedKnown)
		return sc
	}
	sc := genScenario(t, &profC05)
	if sc.Cfg.PtyRows == 0 && sc.Cfg.Width == 0 && len(sc.Bars) > 0 && rapid.IntRange(0, 11).Draw(t, "tallframe") == 0 {
		// a buffer output takes as many rows as it is wide (80): extender rows bring
		// the frame to just below, at and just above that
		target := rapid.SampledFrom([]int{79, 80, 80, 81}).Draw(t, "tallrows")
		sum := 0
		for _, b := range sc.Bars {
			sum += 1 + b.ExtRows
		}
		if sum < target {
			i := rapid.IntRange(0, len(sc.Bars)-1).Draw(t, "tallbar")
			sc.Bars[i].ExtRows += target - sum
		}
	}
	if sc.Cfg.Refresh == "manual" {
		excludedKnown += int64(repairQueue(sc))
	}
	vstat.Excluded(excludedKnown)
	return sc
}

// verdictOfTrace maps hangs / inconclusive runs; returns handled=true if the
// result is already decided.
func traceProblem(sc *engine.Scenario, tr *engine.Trace, r *Result, hangIsViolation bool) bool {
	if tr.Inconclusive != "" {
		r.Inconclusive = true
		vstat.Note("inconclusive: " + tr.Inconclusive)
		return true
	}
	if tr.Hang != nil {
		vstat.Note(fmt.Sprintf("hang %s at %s: %v", tr.Hang.Kind, tr.Hang.AtStep, tr.Hang.Where))
		if d := os.Getenv("VERIF_HANGDUMP"); d != "" {
			b, _ := json.Marshal(sc)
			_ = os.WriteFile(fmt.Sprintf("%s/hang-%x.json", d, vstat.HashBytes(b)), b, 0o644)
		}
		if hangIsViolation {
			r.Err = fmt.Errorf("%s at %s; goroutines: %v", tr.Hang.Kind, tr.Hang.AtStep, tr.Hang.Where)
			r.Kind = tr.Hang.Kind
			return true
		}
		// the property's own oracle still judges the partial trace; if it has
		// nothing to say the case is inconclusive for this property (see C01)
	}
	return false
}

// dumpHang keeps the scenario of a hung run in $VERIF_HANGDUMP (debugging aid).
func init() {
	engine.InconclusiveHook = func(sc *engine.Scenario, why string) {
		vstat.Note("inconclusive run: " + why)
		if d := os.Getenv("VERIF_HANGDUMP"); d != "" {
			b, _ := json.Marshal(map[string]interface{}{"case": sc, "inconclusive": why})
			_ = os.WriteFile(fmt.Sprintf("%s/inconclusive-%x.json", d, vstat.HashBytes(b)), b, 0o644)
		}
	}
}

func dumpHang(sc *engine.Scenario, tr *engine.Trace) {
	if d := os.Getenv("VERIF_HANGDUMP"); d != "" && tr.Hang != nil {
		b, _ := json.Marshal(map[string]interface{}{"case": sc, "hang": tr.Hang})
		_ = os.WriteFile(fmt.Sprintf("%s/hang-%x.json", d, vstat.HashBytes(b)), b, 0o644)
	}
}

func sortedInts(m map[int]bool) []int {
	var o []int
	for k := range m {
		o = append(o, k)
	}
	sort.Ints(o)
	return o
}

func runC05(ci interface{}) Result {
	sc := ci.(*engine.Scenario)
	var r Result
	tr := engine.Run(sc, engine.Options{})
	if traceProblem(sc, tr, &r, false) {
		return r
	}
	frames := tr.Frames()
	sim := engine.Simulate(sc)
	r.Classes = append(append(r.Classes, "refresh:"+sc.Cfg.Refresh), featureClasses(sc)...)
	if sc.Cfg.Pop {
		r.Classes = append(r.Classes, "pop")
	}
	// history invariants (every regime): no bar twice in a frame; presence 0*1+0*
	// when the rows of all bars may not fit the height, bars are legitimately cut
	// off at the top and come back later: only the exact model judges those runs
	height := 80
	if sc.Cfg.Width > 0 {
		height = sc.Cfg.Width
	}
	if sc.Cfg.PtyRows > 0 {
		height = sc.Cfg.PtyRows - 1
	}
	allRows := 0
	for _, b := range sc.Bars {
		allRows += 1 + b.ExtRows
	}
	mayClip := allRows > height
	first, last := map[int]int{}, map[int]int{}
	changes := 0
	var prevSet string
	for k, f := range frames {
		seen := map[int]int{}
		for _, b := range f.BarOrder() {
			seen[b]++
			if seen[b] > 1 {
				r.Err, r.Kind = fmt.Errorf("frame %d draws bar %d twice: %q", k, b, f.Raw), "duplicate"
				return r
			}
			if _, ok := first[b]; !ok {
				first[b] = k
			} else if last[b] != k-1 && !mayClip {
				r.Err, r.Kind = fmt.Errorf("bar %d vanished after frame %d and is back in frame %d", b, last[b], k), "vanish"
				return r
			}
			last[b] = k
		}
		cur := fmt.Sprint(f.BarOrder())
		if k > 0 && sameSet(prevSet, cur) == false {
			changes++
		}
		prevSet = cur
	}
	if tr.Hang != nil {
		r.Inconclusive = true
		return r
	}
	if hasPar(sc) {
		r.Classes = append(r.Classes, "concurrent-adders")
		// bars nobody ever updates or aborts stay in the container for the whole
		// program: once their Add has returned, every later cycle must draw them
		touched := map[int]bool{}
		var walk func([]engine.Step)
		walk = func(sts []engine.Step) {
			for _, st := range sts {
				switch st.Op {
				case "incr", "setcur", "settotal", "etc", "abort", "proxy":
					// (bytes passed through a proxy reader/writer advance the bar too)
					touched[st.Bar] = true
				}
				for _, blk := range st.Par {
					walk(blk)
				}
			}
		}
		walk(sc.Steps)
		addRet := map[int]int64{}
		for _, a := range tr.Adds {
			if a.Err == nil {
				addRet[a.Bar] = a.RetSeq
			}
		}
		var begins []int64
		for _, e := range tr.Events {
			if e.Point == "render.begin" {
				begins = append(begins, e.Seq)
			}
		}
		progEnd := tr.StepSeqLast()
		checked := 0
		for k, f := range frames {
			if f.Seq <= 0 || f.Seq >= progEnd || mayClip {
				continue
			}
			// the cycle this chunk belongs to: the last render.begin before it
			var begin int64 = -1
			for _, b := range begins {
				if b < f.Seq {
					begin = b
				}
			}
			if begin < 0 {
				continue
			}
			for bar, ret := range addRet {
				if touched[bar] || sc.Bars[bar].QueueAfter >= 0 || ret >= begin {
					continue
				}
				checked++
				if f.Count(bar) != 1 {
					r.Err, r.Kind = fmt.Errorf("bar %d was added (Add returned at event %d) before render cycle began (event %d) and is never updated, but frame %d draws it %d times: %q", bar, ret, begin, k, f.Count(bar), f.Raw), "missing-in-cycle"
					return r
				}
			}
		}
		if checked > 0 {
			r.Classes = append(r.Classes, "add-before-cycle-checked")
		}
	}
	exact := sim.OK && sc.Cfg.Width == 0
	if sc.Cfg.QueueLen >= 0 && sc.Cfg.QueueLen < len(sc.Bars) {
		r.Classes = append(r.Classes, "q<n")
	}
	if sim.OK && sim.Clipped {
		r.Classes = append(r.Classes, "clipped")
	}
	if sim.OK && sc.Cfg.PtyRows == 0 {
		for _, mf := range sim.Frames {
			n := 0
			for _, k := range mf.Rows {
				n += k
			}
			if n == mf.Height {
				r.Classes = append(r.Classes, "frame-fills-buffer-height")
				break
			}
		}
	}
	if sim.OK && sim.Errored {
		r.Classes = append(r.Classes, "render-fault")
	}
	if exact {
		r.Classes = append(r.Classes, "exact-model")
		if len(frames) != len(sim.Frames) {
			r.Err, r.Kind = fmt.Errorf("model predicts %d frames, output has %d", len(sim.Frames), len(frames)), "framecount"
			return r
		}
		for k, f := range frames {
			if sim.Frames[k].WriteFailed {
				continue // the bytes of the frame the writer rejected are lost or cut
			}
			got := map[int]bool{}
			for _, b := range f.BarOrder() {
				got[b] = true
			}
			want := map[int]bool{}
			for _, b := range sim.Frames[k].Visible {
				want[b] = true
			}
			if sim.Frames[k].Ambiguous {
				// which of several equal-priority bars is cut off is unspecified
				inHeap := map[int]bool{}
				for _, b := range sim.Frames[k].Order {
					inHeap[b] = true
				}
				for b := range got {
					if !inHeap[b] {
						r.Err, r.Kind = fmt.Errorf("frame %d shows bar %d which is not in the container (model: %v)", k, b, sim.Frames[k].Order), "membership"
						return r
					}
				}
				if len(got) != len(want) && sc.Bars != nil {
					// the number of visible bars can differ too when groups have different heights
				}
				continue
			}
			if sim.Clipped {
				// how many rows fit is C04's business: every bar the model expects
				// must be there, nothing outside the container may be
				inHeap := map[int]bool{}
				for _, b := range sim.Frames[k].Order {
					inHeap[b] = true
				}
				for b := range got {
					if !inHeap[b] {
						r.Err, r.Kind = fmt.Errorf("frame %d shows bar %d which is not in the container (model: %v)", k, b, sim.Frames[k].Order), "membership"
						return r
					}
				}
				for b := range want {
					if !got[b] {
						r.Err, r.Kind = fmt.Errorf("frame %d does not show bar %d (shown %v, model expects %v; frame %q)", k, b, sortedInts(got), sortedInts(want), f.Raw), "membership"
						return r
					}
				}
				continue
			}
			if fmt.Sprint(sortedInts(got)) != fmt.Sprint(sortedInts(want)) {
				r.Err, r.Kind = fmt.Errorf("frame %d shows bars %v, model expects %v (frame %q)", k, sortedInts(got), sortedInts(want), f.Raw), "membership"
				return r
			}
		}
		if sc.Cfg.Notifier && len(tr.Notified) >= 1 {
			got := append([]int(nil), tr.Notified[0]...)
			sort.Ints(got)
			want := append([]int(nil), sim.FinalHeap...)
			sort.Ints(want)
			if fmt.Sprint(got) != fmt.Sprint(want) {
				r.Err, r.Kind = fmt.Errorf("shutdown notifier lists bars %v, container holds %v", got, want), "notifier"
				return r
			}
		}
	}
	if sc.Cfg.Notifier {
		if len(tr.Notified) != 1 {
			r.Err, r.Kind = fmt.Errorf("shutdown notifier delivered %d values, want 1", len(tr.Notified)), "notifier-count"
			return r
		}
		seen := map[int]bool{}
		for _, b := range tr.Notified[0] {
			if seen[b] || b < 0 {
				r.Err, r.Kind = fmt.Errorf("shutdown notifier list %v has a duplicate or unknown bar", tr.Notified[0]), "notifier"
				return r
			}
			seen[b] = true
		}
	}
	r.Nontrivial = len(frames) >= 3 && changes >= 1
	if changes >= 1 {
		r.Classes = append(r.Classes, "membership-change")
	}
	return r
}

func sameSet(a, b string) bool { return a == b }
