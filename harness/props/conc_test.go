package props

import (
	"fmt"

	"pgregory.net/rapid"
	"verif/harness/engine"
)

// Concurrent scenarios: several client goroutines (par blocks) operate on shared
// bars and on the container while render cycles run (real ticker, or ticks
// issued by the clients), with schedule perturbation at the library's hook
// points. All random choices are rapid draws.

type ConcProfile struct {
	Profile
	MaxBlocks   int
	MaxBlockOps int
	Pars        int  // max number of par steps
	CancelIn    int  // percent: a cancel/shutdown op inside a par block
	LateOps     bool // operations issued after the container is done (C02)
	PerturbMax  int  // highest perturbation level
	HoldPct     int  // percent of scenarios with a directed hold
	SyncPct     int  // percent of scenarios whose bars carry sync decorators at all
	WriteBoost  int  // extra percentage of operations that are Progress.Write calls
}

var holdTemplates = []engine.Hold{
	{A: "hm.req", B: "flush.bar", KB: 1, HoldMs: 2},
	{A: "hm.req", B: "render.begin", KB: 1, HoldMs: 2},
	{A: "wc.sent", B: "flush.bar", KB: 1, HoldMs: 3},
	{A: "bar.exit", B: "flush.bar", KB: 1, HoldMs: 2},
	{A: "bar.exit", B: "render.begin", KB: 1, HoldMs: 3},
	{A: "wd.collected", B: "hm.req", KB: 1, HoldMs: 2},
	{A: "bar.render", B: "bar.exit", KB: 1, HoldMs: 2},
	{A: "flush.bar", B: "bar.exit", KB: 1, HoldMs: 2},
	{A: "render.begin", B: "bar.exit", KB: 1, HoldMs: 2},
}

func genBlock(t *rapid.T, prof *ConcProfile, sc *engine.Scenario, n int, canTick bool, adds *int, wid int, wcount *int) []engine.Step {
	nb := len(sc.Bars)
	var blk []engine.Step
	for k := 0; k < n; k++ {
		bar := rapid.IntRange(0, nb-1).Draw(t, "bar")
		spec := &sc.Bars[bar]
		if pct(t, prof.WriteBoost, "writeboost") {
			body := rapid.StringMatching(`[a-z ]{0,40}`).Draw(t, "wbody2")
			blk = append(blk, engine.Step{Op: "write", Text: fmt.Sprintf("w%d.%d:%s\n", wid, *wcount, body)})
			*wcount++
			continue
		}
		switch rapid.IntRange(0, 19).Draw(t, "bop") {
		case 0, 1, 2, 3, 4:
			hi := int64(25)
			if spec.Total > 0 && spec.Total < 1<<30 {
				hi = spec.Total + 2
			}
			v := rapid.SampledFrom([]string{"", "", "by", "one", "ewma", "ewmaby", "ewmaone"}).Draw(t, "variant")
			st := engine.Step{Op: "incr", Bar: bar, N: rapid.Int64Range(0, hi).Draw(t, "n"), Text: v}
			if v == "one" || v == "ewmaone" {
				st.N = 1
			}
			blk = append(blk, st)
		case 5:
			blk = append(blk, engine.Step{Op: "setcur", Bar: bar, N: rapid.Int64Range(-1, 30).Draw(t, "cur"), Text: rapid.SampledFrom([]string{"", "", "ewma"}).Draw(t, "setvariant")})
		case 6:
			blk = append(blk, engine.Step{Op: "settotal", Bar: bar, N: rapid.Int64Range(-2, 30).Draw(t, "tot"), Flag: rapid.IntRange(0, 3).Draw(t, "complete") == 0})
		case 7:
			blk = append(blk, engine.Step{Op: "etc", Bar: bar})
		case 8:
			if prof.AbortW > 0 {
				blk = append(blk, engine.Step{Op: "abort", Bar: bar, Flag: rapid.Bool().Draw(t, "drop")})
			}
		case 9:
			if prof.Prio {
				blk = append(blk, engine.Step{Op: rapid.SampledFrom([]string{"prio", "uprio"}).Draw(t, "pop"), Bar: bar, N: int64(rapid.IntRange(-3, 8).Draw(t, "pv")), Flag: rapid.Bool().Draw(t, "lazy")})
			}
		case 10, 11:
			if prof.Text > 0 {
				body := rapid.StringMatching(`[a-z]{0,20}`).Draw(t, "wbody")
				blk = append(blk, engine.Step{Op: "write", Text: fmt.Sprintf("w%d.%d:%s\n", wid, *wcount, body)})
				*wcount++
			}
		case 12, 13:
			if canTick {
				blk = append(blk, engine.Step{Op: "tick"})
			} else {
				blk = append(blk, engine.Step{Op: "sleep", N: int64(rapid.IntRange(0, 800).Draw(t, "us"))})
			}
		case 14:
			blk = append(blk, engine.Step{Op: "get", Bar: bar})
		case 15:
			blk = append(blk, engine.Step{Op: rapid.SampledFrom([]string{"id", "traverse", "proxy", "refill"}).Draw(t, "misc"), Bar: bar, N: int64(rapid.IntRange(0, 40).Draw(t, "mn"))})
		case 16, 17:
			if wid == 0 && *adds < nb {
				blk = append(blk, engine.Step{Op: "add", Bar: *adds})
				*adds++
			}
		default:
			blk = append(blk, engine.Step{Op: "sleep", N: int64(rapid.IntRange(0, 300).Draw(t, "us2"))})
		}
	}
	return blk
}

func genConcurrent(t *rapid.T, prof *ConcProfile) *engine.Scenario {
	p := prof.Profile
	if !pct(t, prof.SyncPct, "hassync") {
		p.SyncDecors = 0
	}
	sc := genSetup(t, &p)
	nb := len(sc.Bars)
	adds := rapid.IntRange(1, nb).Draw(t, "firstadds")
	for i := 0; i < adds; i++ {
		sc.Steps = append(sc.Steps, engine.Step{Op: "add", Bar: i})
	}
	if openFinding("C17-late-successor") {
		// a successor created by a concurrent client may be created after its
		// predecessor was flushed: only successors of the initial adds stay queued
		for i := adds; i < nb; i++ {
			if sc.Bars[i].QueueAfter >= 0 {
				sc.Bars[i].QueueAfter = -1
				excludedKnown++
			}
		}
	}
	canTick := sc.Cfg.Refresh == "manual" || sc.Cfg.Refresh == "autoinj"
	npar := rapid.IntRange(1, max1(prof.Pars)).Draw(t, "npar")
	wcount := 0
	cancelled := false
	for pi := 0; pi < npar && !cancelled; pi++ {
		nblk := rapid.IntRange(1, prof.MaxBlocks).Draw(t, "nblocks")
		st := engine.Step{Op: "par"}
		for b := 0; b < nblk; b++ {
			n := rapid.IntRange(1, prof.MaxBlockOps).Draw(t, "nops")
			st.Par = append(st.Par, genBlock(t, prof, sc, n, canTick, &adds, b, &wcount))
		}
		if pct(t, prof.CancelIn, "cancelin") {
			b := rapid.IntRange(0, nblk-1).Draw(t, "cancelblk")
			at := rapid.IntRange(0, len(st.Par[b])).Draw(t, "cancelpos")
			op := rapid.SampledFrom([]string{"cancel", "shutdown"}).Draw(t, "cancelop")
			blk := append([]engine.Step(nil), st.Par[b][:at]...)
			blk = append(blk, engine.Step{Op: op})
			st.Par[b] = append(blk, st.Par[b][at:]...)
			cancelled = true
		}
		sc.Steps = append(sc.Steps, st)
		if canTick && rapid.Bool().Draw(t, "tickbetween") {
			sc.Steps = append(sc.Steps, engine.Step{Op: "tick"})
		}
	}
	// bars never added are dropped from the spec list? no: they simply stay unused
	_ = adds
	lvl := rapid.IntRange(0, prof.PerturbMax).Draw(t, "plevel")
	sc.Perturb.Level = lvl
	sc.Perturb.Seed = uint64(rapid.Uint32().Draw(t, "pseed"))
	if pct(t, prof.HoldPct, "hashold") {
		h := rapid.SampledFrom(holdTemplates).Draw(t, "hold")
		h.KA = rapid.IntRange(0, 4).Draw(t, "holdka")
		sc.Perturb.Holds = append(sc.Perturb.Holds, h)
	}
	return sc
}

// syncBars counts the bars that carry at least one width-synchronised decorator.
func syncBars(sc *engine.Scenario, added []bool) int {
	n := 0
	for i, b := range sc.Bars {
		if i < len(added) && !added[i] {
			continue
		}
		for _, d := range b.Decors {
			if d.C&4 != 0 && !d.Disabled {
				n++
				break
			}
		}
	}
	return n
}

func hasPar(sc *engine.Scenario) bool {
	for _, st := range sc.Steps {
		if st.Op == "par" {
			return true
		}
	}
	return false
}
