package props

import (
	"fmt"
	"strings"

	"github.com/acarl005/stripansi"
	"github.com/mattn/go-runewidth"
	"pgregory.net/rapid"
	"verif/harness/engine"
	"verif/harness/vstat"
)

// C03 — in a refreshing container the output ends, when Wait returns, with a
// frame that shows every bar still in the container exactly once in its final
// state, removed bars are absent, and nothing is written after Wait.
//
// "Refreshing" = the library schedules frames itself (WithAutoRefresh): the
// render clock is either injected by the harness (autoinj, racing with the
// library's own early refresh) or a real 1-3 ms ticker (autort).

func init() {
	register(&Prop{ID: "C03", Gen: genC03, New: func() interface{} { return new(engine.Scenario) }, Run: runC03, Journal: true})
}

var profC03 = Profile{
	MaxBars: 6, MinBars: 2, MaxSteps: 30, Refresh: []string{"autoinj", "autoinj", "autort"}, QLens: []int{-1, -1, -4},
	Pop: 30, Queue: 20, LateSuccW: 2, Prio: true, Ext: 15, Text: 1, Rm: 30, NoPop: 25, AbortW: 3, TicksW: 4,
	SyncDecors: 1, PlainDecors: 1, Wraps: true, DisabledPct: 6, OnCompleteFill: 50, Cancel: 12, PostTerm: true,
	Fillers: []string{"bar", "tag", "spinner"}, LateAdd: true, Delay: 15, DelaySleep: 60, OutSlow: 12,
}

func genC03(t *rapid.T) interface{} {
	excludedKnown = 0
	sc := genScenario(t, &profC03)
	if sc.Cfg.Delay && rapid.IntRange(0, 2).Draw(t, "allfinishduringdelay") == 0 {
		// a short job: every bar finishes and is shut down while the render delay
		// is still pending; the delay ends just before Wait
		cancelled := false
		var steps []engine.Step
		added := map[int]bool{}
		for _, st := range sc.Steps {
			if st.Op == "release" {
				continue
			}
			if st.Op == "cancel" || st.Op == "shutdown" {
				cancelled = true
			}
			if st.Op == "add" {
				added[st.Bar] = true
			}
			steps = append(steps, st)
		}
		if !cancelled {
			for i := range sc.Bars {
				if !added[i] {
					continue
				}
				if i%2 == 0 {
					steps = append(steps, engine.Step{Op: "settotal", Bar: i, N: -1, Flag: true}, engine.Step{Op: "abort", Bar: i})
				} else {
					steps = append(steps, engine.Step{Op: "abort", Bar: i, Flag: i%3 == 0})
				}
			}
			for k := 0; k < 3; k++ {
				if sc.Cfg.Refresh == "autort" {
					steps = append(steps, engine.Step{Op: "sleep", N: 4000})
				} else {
					steps = append(steps, engine.Step{Op: "tick"})
				}
			}
			sc.Steps = steps
		}
	}
	vstat.Excluded(excludedKnown)
	return sc
}

// decorFinalText evaluates the wrapper stack of a decorator for a bar in the
// given state: the message a wrapper substitutes (possibly empty) and true, or
// "", false when the inner decorator's own text is shown.
func decorFinalText(wraps []string, completed, aborted bool) (string, bool) {
	for i := len(wraps) - 1; i >= 0; i-- {
		switch wraps[i] {
		case "oncomplete":
			if completed {
				return "done", true
			}
		case "onabort":
			if aborted {
				return "abrt", true
			}
		case "ocoa":
			if completed || aborted {
				return "fin", true
			}
		case "oncomplete-e":
			if completed {
				return "", true
			}
		case "onabort-e":
			if aborted {
				return "", true
			}
		case "ocoa-e":
			if completed || aborted {
				return "", true
			}
		}
	}
	return "", false
}

// checkFinalRow compares one bar's row in the last frame with its end state.
func checkFinalRow(sc *engine.Scenario, i int, row *engine.Row, e engine.EndBar) error {
	spec := &sc.Bars[i]
	switch {
	case e.Completed:
		if row.Flag != "C" || row.Cur != row.Tot {
			return fmt.Errorf("bar %d completed but its last row shows state %s with %d/%d: %q", i, row.Flag, row.Cur, row.Tot, row.Raw)
		}
	case e.Aborted:
		if row.Flag != "A" {
			return fmt.Errorf("bar %d was aborted but its last row shows state %s: %q", i, row.Flag, row.Raw)
		}
	}
	plain := stripansi.Strip(row.Raw)
	if runewidth.StringWidth(plain) >= 80 {
		return nil // decorators did not fit and were cut: texts cannot be located
	}
	want := map[string]int{}
	for _, d := range spec.Decors {
		if d.Disabled {
			continue
		}
		if txt, sub := decorFinalText(d.Wrap, e.Completed, e.Aborted); sub && txt != "" {
			want[txt]++
		}
	}
	if spec.OnComplete && e.Completed {
		want["DONE"]++
	}
	if spec.OnAbort && e.Aborted {
		want["ABRT"]++
	}
	for _, txt := range []string{"done", "abrt", "fin", "DONE", "ABRT"} {
		if got := strings.Count(plain, txt); got != want[txt] {
			return fmt.Errorf("bar %d (completed=%v aborted=%v): its last row contains %q %d times, its on-complete/on-abort decorations call for %d: %q", i, e.Completed, e.Aborted, txt, got, want[txt], row.Raw)
		}
	}
	return nil
}

func runC03(ci interface{}) Result {
	sc := ci.(*engine.Scenario)
	var r Result
	tr := engine.Run(sc, engine.Options{})
	if tr.Inconclusive != "" || tr.Hang != nil {
		// termination is C01's property
		r.Inconclusive = tr.Inconclusive != ""
		if tr.Hang != nil {
			vstat.Class("hang-left-to-C01", 1)
			dumpHang(sc, tr)
		}
		return r
	}
	r.Classes = append(append(r.Classes, "refresh:"+sc.Cfg.Refresh), featureClasses(sc)...)
	if tr.LateChunks > 0 {
		r.Err, r.Kind = fmt.Errorf("%d write(s) reached the output after Wait had returned", tr.LateChunks), "late-write"
		return r
	}
	end, cancelled, ok := engine.EndState(sc)
	if !ok {
		return r
	}
	nAdded := 0
	for _, e := range end {
		if e.Added {
			nAdded++
		}
	}
	if nAdded == 0 {
		return r
	}
	if tr.ChunksAtWait == 0 {
		// nothing at all was written: fine only if no bar is left to show
		if !cancelled {
			for i, stays := range engine.FinalContainer(sc, end) {
				if stays {
					// (the release is only followed by a pause in some cases: rule out
					// that the container simply had not been scheduled yet)
					for again := 0; again < 2; again++ {
						if t2 := engine.Run(sc, engine.Options{}); t2.ChunksAtWait > 0 || t2.Hang != nil || t2.Inconclusive != "" {
							return r
						}
					}
					r.Err, r.Kind = fmt.Errorf("Wait returned and nothing was ever written, although bar %d finished and is still in the container", i), "no-frame"
					return r
				}
			}
		}
		return r
	}
	if sc.Cfg.Delay {
		r.Classes = append(r.Classes, "render-delay")
	}
	last := engine.ParseFrame(tr.ChunksAtWait-1, tr.Chunks[tr.ChunksAtWait-1].Seq, tr.Chunks[tr.ChunksAtWait-1].Data)
	for i := range sc.Bars {
		if n := last.Count(i); n > 1 {
			r.Err, r.Kind = fmt.Errorf("the last frame shows bar %d %d times: %q", i, n, last.Raw), "duplicate"
			return r
		}
	}
	// getters after Wait agree with what the last frame shows
	for _, g := range tr.Final {
		row := last.BarRow(g.Bar)
		if row == nil || end[g.Bar].ByCancel {
			// a bar ended by cancel/Shutdown may be drawn one last time before it
			// notices: the statement quantifies over programs that finish their bars
			continue
		}
		if row.Cur != g.Cur || (row.Flag == "C") != g.Completed || (row.Flag == "A") != g.Aborted {
			r.Err, r.Kind = fmt.Errorf("bar %d: last frame shows %d/%d state %s, after Wait the bar reports current=%d completed=%v aborted=%v", g.Bar, row.Cur, row.Tot, row.Flag, g.Cur, g.Completed, g.Aborted), "getter-mismatch"
			return r
		}
	}
	if cancelled {
		r.Classes = append(r.Classes, "cancelled")
		// bars shown must be in a final state; which bars remain is not pinned down
		for i := range sc.Bars {
			if row := last.BarRow(i); row != nil && !end[i].ByCancel {
				if row.Flag == "r" || row.Flag == "X" {
					r.Err, r.Kind = fmt.Errorf("after cancellation the last frame shows bar %d in state %s: %q", i, row.Flag, row.Raw), "state"
					return r
				}
				if err := checkFinalRow(sc, i, row, end[i]); err != nil {
					r.Err, r.Kind = err, "decoration"
					return r
				}
			}
		}
		return r
	}
	in := engine.FinalContainer(sc, end)
	// bars that leave by popping (no successor, pop mode, not no-pop)
	popped := map[int]bool{}
	hasSucc := map[int]bool{}
	for j, b := range sc.Bars {
		if end[j].Added && b.QueueAfter >= 0 && end[b.QueueAfter].Added {
			hasSucc[b.QueueAfter] = true
		}
	}
	for j, b := range sc.Bars {
		if end[j].Added && !hasSucc[j] && sc.Cfg.Pop && !b.NoPop {
			popped[j] = true
		}
	}
	// (a bar whose successors were all created after it had finished may have
	// been popped before they came)
	for j := range poppedDespiteSuccessor(sc) {
		if end[j].Added {
			popped[j] = true
		}
	}
	kinds := map[string]bool{}
	for i := range sc.Bars {
		if !end[i].Added {
			continue
		}
		row := last.BarRow(i)
		if in[i] {
			if row == nil {
				r.Err, r.Kind = fmt.Errorf("bar %d finished and is still in the container but the last frame does not show it: %q", i, last.Raw), "missing"
				return r
			}
			if err := checkFinalRow(sc, i, row, end[i]); err != nil {
				r.Err, r.Kind = err, "final-state"
				return r
			}
			if end[i].Completed {
				kinds["completed"] = true
			} else {
				kinds["aborted"] = true
			}
		} else if popped[i] {
			// the frame that persists a popped bar may be the last one written (an
			// empty frame afterwards writes nothing): if shown, it is in its final state
			if row != nil {
				if err := checkFinalRow(sc, i, row, end[i]); err != nil {
					r.Err, r.Kind = err, "final-state"
					return r
				}
			}
			kinds["popped"] = true
		} else {
			if row != nil {
				r.Err, r.Kind = fmt.Errorf("bar %d was removed or replaced by its successor but the last frame still shows it: %q", i, last.Raw), "stale"
				return r
			}
			kinds["gone"] = true
		}
	}
	for k := range kinds {
		r.Classes = append(r.Classes, "final:"+k)
	}
	// the final frame had to come from early refresh / the final render: no tick
	// step after the last mutator
	lastMut, lastTick := -1, -1
	for i, st := range sc.Steps {
		switch st.Op {
		case "tick":
			lastTick = i
		case "incr", "setcur", "settotal", "etc", "abort", "add":
			lastMut = i
		}
	}
	r.Nontrivial = nAdded >= 2 && kinds["completed"] && (kinds["aborted"] || kinds["gone"] || kinds["popped"]) && lastTick < lastMut+1
	if sc.Cfg.Pop {
		r.Classes = append(r.Classes, "pop")
	}
	return r
}
