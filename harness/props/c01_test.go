package props

import (
	"fmt"

	"pgregory.net/rapid"
	"verif/harness/engine"
	"verif/harness/vstat"
)

// C01 — Wait returns once every bar has finished: no deadlock under any
// schedule. Concurrent scenarios with every configuration axis of the statement
// (n relative to q, refresh mode and rate, synchronised decorators, priority
// changes, pop mode, removal, concurrent Progress.Write, cancellation); every
// program ends by finishing all bars and calling Wait. Oracle: the decidable
// hang verdict of the engine (all library and client goroutines blocked with
// identical stacks and no hook event, or the frame bound exceeded) — never a
// bare timeout.

func init() {
	register(&Prop{ID: "C01", Gen: genC01, New: func() interface{} { return new(engine.Scenario) }, Run: runC01, Journal: true})
}

var profC01 = ConcProfile{
	Profile: Profile{
		MaxBars: 9, MinBars: 1, Refresh: []string{"autort", "autort", "autoinj", "manual", "none"}, QLens: []int{-1, -1, 0, 1, 2, -2, -3, -4},
		Pop: 25, Queue: 15, Prio: true, Ext: 10, Text: 2, Rm: 25, NoPop: 15, AbortW: 2,
		SyncDecors: 2, PlainDecors: 1, Wraps: true, Fillers: []string{"bar", "tag", "nop"}, Notifier: 30, SmallWidth: 12, Faults: 8, UserWG: 20, Listeners: 20, DisabledPct: 6, Delay: 12, DelayNever: 50, Peer: 30, BarePct: 8,
	},
	MaxBlocks: 4, MaxBlockOps: 10, Pars: 2, CancelIn: 10, PerturbMax: 3, HoldPct: 40, SyncPct: 60,
}

// profC01Seq: clocked single-client histories (adds, removals and render cycles
// in every order) with a mix of bars with and without synchronised decorators.
var profC01Seq = Profile{
	MaxBars: 7, MinBars: 2, MaxSteps: 40, Refresh: []string{"manual", "autoinj"}, QLens: []int{-1, 0, 1, -2, -3},
	Pop: 25, Queue: 20, LateSuccW: 2, Prio: true, Text: 1, Rm: 45, NoPop: 15, AbortW: 3, TicksW: 10,
	SyncDecors: 1, PlainDecors: 1, Wraps: true, NoDecorPct: 30, ChurnW: 4, Fillers: []string{"tag", "nop"}, LateAdd: true, Cancel: 8, Faults: 8, Listeners: 20, DisabledPct: 6, Delay: 12, DelayNever: 50, AddTick: 10, Peer: 30, BarePct: 12,
}

func genC01(t *rapid.T) interface{} {
	excludedKnown = 0
	if rapid.IntRange(0, 2).Draw(t, "sequential") == 0 {
		sc := genScenario(t, &profC01Seq)
		if sc.Cfg.Refresh == "manual" {
			excludedKnown += int64(repairQueue(sc))
		}
		vstat.Excluded(excludedKnown)
		return sc
	}
	sc := genConcurrent(t, &profC01)
	c01Exclude(sc)
	vstat.Excluded(excludedKnown)
	return sc
}

// c01Exclude removes the input region of open findings from a scenario.
func c01Exclude(sc *engine.Scenario) {
	if openFinding("C01-detached-push-with-sync") {
		// more bars than the queue holds AND width-synchronised decorators: a push
		// sent from a detached goroutine can be overtaken by the next cycle's sync
		q := sc.Cfg.QueueLen
		if q >= 0 && q < len(sc.Bars)+1 && syncBars(sc, nil) > 0 {
			sc.Cfg.QueueLen = len(sc.Bars) + 1
			excludedKnown++
		}
	}
}

func runC01(ci interface{}) Result {
	sc := ci.(*engine.Scenario)
	var r Result
	tr := engine.Run(sc, engine.Options{})
	if tr.Inconclusive != "" {
		r.Inconclusive = true
		vstat.Note("inconclusive: " + tr.Inconclusive)
		tr.Hang = &engine.Hang{Kind: "inconclusive:" + tr.Inconclusive}
		dumpHang(sc, tr)
		return r
	}
	r.Classes = append(append(r.Classes, "refresh:"+sc.Cfg.Refresh), featureClasses(sc)...)
	nAdded := 0
	for _, a := range tr.Added {
		if a {
			nAdded++
		}
	}
	q := sc.Cfg.QueueLen
	if q < 0 {
		q = 128
	}
	nq := nAdded > q
	sb := syncBars(sc, tr.Added)
	if nq {
		r.Classes = append(r.Classes, "n>q")
	}
	if sb >= 2 {
		r.Classes = append(r.Classes, "sync>=2bars")
	}
	if nq && sb >= 1 {
		r.Classes = append(r.Classes, "n>q+sync")
	}
	if sc.Cfg.Pop {
		r.Classes = append(r.Classes, "pop")
	}
	if tr.CancelSeq != 0 {
		r.Classes = append(r.Classes, "cancelled")
	}
	if len(sc.Perturb.Holds) > 0 {
		r.Classes = append(r.Classes, "hold")
	}
	if !hasPar(sc) {
		r.Classes = append(r.Classes, "clocked")
	}
	for _, e := range tr.Events {
		if e.Point == "client.fillerr" || e.Point == "client.exterr" {
			r.Classes = append(r.Classes, "render-fault") // a render error cancels the container: Wait must still return
			break
		}
	}
	if tr.Hang != nil {
		dumpHang(sc, tr)
		r.Err = fmt.Errorf("%s: Progress.Wait does not return although every bar finished (last client activity: %s); goroutines: %v", tr.Hang.Kind, tr.Hang.AtStep, tr.Hang.Where)
		r.Kind = tr.Hang.Kind
		return r
	}
	if tr.WaitSeq == 0 {
		r.Inconclusive = true
		return r
	}
	for _, g := range tr.Final {
		if g.Running {
			r.Err, r.Kind = fmt.Errorf("bar %d is still running after Wait returned", g.Bar), "running"
			return r
		}
	}
	if sc.Cfg.UserWG {
		r.Classes = append(r.Classes, "user-waitgroup")
		if tr.UserWGDoneSeq == 0 || tr.WaitSeq < tr.UserWGDoneSeq {
			r.Err, r.Kind = fmt.Errorf("Wait returned (event %d) before the wait group given with WithWaitGroup was released (event %d)", tr.WaitSeq, tr.UserWGDoneSeq), "user-waitgroup"
			return r
		}
	}
	if len(tr.BarWaitStuck) > 0 {
		r.Err, r.Kind = fmt.Errorf("Bar.Wait of bars %v does not return after Progress.Wait returned", tr.BarWaitStuck), "barwait"
		return r
	}
	r.Nontrivial = nAdded >= 2 && (sb >= 2 || nq || sc.Cfg.Pop || hasPar(sc))
	return r
}
