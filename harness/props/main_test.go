package props

import (
	"encoding/json"
	"fmt"
	"os"
	"path/filepath"
	"sort"
	"strings"
	"testing"

	"pgregory.net/rapid"
	"verif/harness/vstat"
)

// Result is what running one generated case through a property's oracle yields.
type Result struct {
	Nontrivial   bool
	Classes      []string
	Err          error  // oracle violation (nil = held)
	Kind         string // short failure kind used for known-finding signatures
	Inconclusive bool   // the case could not be judged (slow machine etc.)
	Fatal        bool   // the failure left goroutines stuck: the process cannot run further cases (no shrinking)
}

// Prop is one property check: generator, oracle, JSON replay.
type Prop struct {
	ID  string
	Gen func(t *rapid.T) interface{} // returns *Case
	New func() interface{}           // returns *Case (zero) for JSON decoding
	Run func(c interface{}) Result
	// Journal: write every case to the crash journal before running it.
	Journal bool
}

var registry = map[string]*Prop{}

func register(p *Prop) { registry[p.ID] = p }

func propIDs() []string {
	var ids []string
	for id := range registry {
		ids = append(ids, id)
	}
	sort.Strings(ids)
	return ids
}

func TestMain(m *testing.M) {
	code := m.Run()
	vstat.Flush()
	os.Exit(code)
}

// openFindings is the set of open known-finding ids (from $VERIF_OPEN, which
// the driver fills from /verif/known_findings.json). Generators exclude the
// input region of an open finding by construction.
func openFinding(id string) bool {
	for _, s := range strings.Split(os.Getenv("VERIF_OPEN"), ",") {
		if s == id {
			return true
		}
	}
	return false
}

func runOne(t interface {
	Fatalf(string, ...interface{})
}, p *Prop, c interface{}) {
	if p.Journal {
		vstat.Journal(p.ID, c)
	}
	r := p.Run(c)
	if r.Inconclusive {
		vstat.Inconclusive(1)
		return
	}
	vstat.Case(c, r.Nontrivial, r.Classes...)
	if r.Err != nil {
		vstat.Fail(p.ID, r.Kind, c, r.Err.Error())
		b, _ := json.Marshal(c)
		if r.Fatal {
			fmt.Printf("property %s violated (%s): %v\ncase: %s\n", p.ID, r.Kind, r.Err, b)
			vstat.Flush()
			osExit(1)
		}
		t.Fatalf("property %s violated (%s): %v\ncase: %s", p.ID, r.Kind, r.Err, b)
	}
}

// TestProp/<ID> runs the generated search for one property.
func TestProp(t *testing.T) {
	for _, id := range propIDs() {
		p := registry[id]
		t.Run(id, func(t *testing.T) {
			vstat.Begin(p.ID)
			rapid.Check(t, func(rt *rapid.T) {
				c := p.Gen(rt)
				runOne(rt, p, c)
			})
		})
	}
}

func loadCase(p *Prop, path string) (interface{}, *vstat.Failure, error) {
	f, err := vstat.LoadFailure(path)
	if err != nil {
		return nil, nil, err
	}
	c := p.New()
	if err := json.Unmarshal(f.Case, c); err != nil {
		return nil, nil, fmt.Errorf("%s: %v", path, err)
	}
	return c, f, nil
}

// TestReplay/<ID>: $VERIF_REPLAY = one file (must be of this property), or
// $VERIF_REPLAY_DIR = directory whose <ID>-*.json files are regression cases.
func TestReplay(t *testing.T) {
	for _, id := range propIDs() {
		p := registry[id]
		t.Run(id, func(t *testing.T) {
			vstat.Begin(p.ID)
			var files []string
			if f := os.Getenv("VERIF_REPLAY"); f != "" {
				files = []string{f}
			} else if d := os.Getenv("VERIF_REPLAY_DIR"); d != "" {
				files, _ = filepath.Glob(filepath.Join(d, p.ID+"-*.json"))
				sort.Strings(files)
			}
			for _, f := range files {
				c, _, err := loadCase(p, f)
				if err != nil {
					t.Fatalf("bad replay file: %v", err)
				}
				reps := 1
				if p.Journal { // schedule dependent: repeat
					reps = 20
				}
				for i := 0; i < reps; i++ {
					r := p.Run(c)
					if r.Inconclusive {
						vstat.Inconclusive(1)
						continue
					}
					vstat.Case(c, r.Nontrivial, append(r.Classes, "replay")...)
					if r.Err != nil {
						vstat.Fail(p.ID, r.Kind, c, r.Err.Error())
						t.Fatalf("replay %s: property %s violated (%s): %v", f, p.ID, r.Kind, r.Err)
					}
				}
			}
		})
	}
}

// TestKnown/<ID>: runs the reproducer of every open known finding of the
// property ($VERIF_KNOWN_DIR/<finding-id>.json for ids in $VERIF_OPEN that
// start with "<ID>-"). A reproducer that still fails prints KNOWN-FINDING; one
// that passes prints nothing (the defect is gone).
func TestKnown(t *testing.T) {
	dir := os.Getenv("VERIF_KNOWN_DIR")
	for _, id := range propIDs() {
		p := registry[id]
		t.Run(id, func(t *testing.T) {
			vstat.Begin(p.ID)
			for _, fid := range strings.Split(os.Getenv("VERIF_OPEN"), ",") {
				if !strings.HasPrefix(fid, p.ID+"-") {
					continue
				}
				path := filepath.Join(dir, fid+".json")
				c, f, err := loadCase(p, path)
				if err != nil {
					t.Fatalf("bad known-finding reproducer: %v", err)
				}
				failed := false
				reps := 1
				if p.Journal {
					reps = 30
				}
				for i := 0; i < reps && !failed; i++ {
					r := p.Run(c)
					if r.Err != nil {
						failed = true
						if f.Kind != "" && r.Kind != f.Kind {
							// a different failure than the listed one: a real violation
							vstat.Fail(p.ID, r.Kind, c, r.Err.Error())
							t.Fatalf("known-finding reproducer %s fails differently (%s, listed %s): %v", fid, r.Kind, f.Kind, r.Err)
						}
					}
				}
				if failed {
					vstat.Known(fmt.Sprintf("KNOWN-FINDING: property=%s %s: %s", p.ID, fid, f.Message))
				} else {
					vstat.Note("known finding " + fid + " no longer reproduces")
				}
			}
		})
	}
}

var osExit = os.Exit
