package props

import (
	"errors"
	"fmt"

	mpb "github.com/vbauerster/mpb/v8"
	"pgregory.net/rapid"
	"verif/harness/engine"
	"verif/harness/vstat"
)

// C02 — no panic and no hang for any schedule or order of valid API calls.
//
// Concurrent scenarios over the whole public API of Progress and Bar with the
// container-done event (context cancel or Shutdown) landing anywhere inside the
// concurrent phases, followed — after Wait has returned — by a generated suffix
// of late calls. Oracle: (i) the worker process survives (a panic in a library
// goroutine kills it; the driver turns that into a violation with the journalled
// scenario), (ii) every call returns (hang verdict of the engine), (iii) calls
// racing with the done event return one of the two legal outcomes, (iv) late
// calls: Add -> (nil, ErrDone), Write -> (0, ErrDone), proxies -> nil, mutators
// change nothing, getters return the final values, nothing is written.

func init() {
	register(&Prop{ID: "C02", Gen: genC02, New: func() interface{} { return new(engine.Scenario) }, Run: runC02, Journal: true})
}

var profC02 = ConcProfile{
	Profile: Profile{
		MaxBars: 8, MinBars: 1, Refresh: []string{"autort", "autort", "autoinj", "manual", "none"}, QLens: []int{-1, -1, 0, 1, 2, -2, -3},
		Pop: 25, Queue: 15, Prio: true, Ext: 10, Text: 3, Rm: 25, NoPop: 15, AbortW: 2,
		SyncDecors: 1, PlainDecors: 1, Wraps: true, Fillers: []string{"bar", "tag", "nop", "spinner", "spinnerv"}, Notifier: 40, Listeners: 30, Faults: 10, DisabledPct: 10, Delay: 8, DelayNever: 50, SmallWidth: 10, UserWG: 15, DebugNil: 12, Peer: 25, BarePct: 8,
	},
	MaxBlocks: 4, MaxBlockOps: 8, Pars: 2, CancelIn: 60, PerturbMax: 3, HoldPct: 40, SyncPct: 50, LateOps: true,
}

func genLate(t *rapid.T, sc *engine.Scenario) []engine.Step {
	nb := len(sc.Bars)
	n := rapid.IntRange(1, 12).Draw(t, "nlate")
	var late []engine.Step
	for k := 0; k < n; k++ {
		bar := rapid.IntRange(0, nb-1).Draw(t, "latebar")
		switch rapid.IntRange(0, 13).Draw(t, "lateop") {
		case 0, 1:
			late = append(late, engine.Step{Op: "add", Bar: bar}) // only bars never added are really tried
		case 2:
			late = append(late, engine.Step{Op: "write", Text: fmt.Sprintf("wL.%d:late\n", k)})
		case 3:
			late = append(late, engine.Step{Op: "write", Text: ""}) // an empty write after Wait is still (0, ErrDone)
		case 4:
			late = append(late, engine.Step{Op: "incr", Bar: bar, N: rapid.Int64Range(0, 30).Draw(t, "ln"), Text: rapid.SampledFrom([]string{"", "by", "ewma"}).Draw(t, "lv")})
		case 5:
			late = append(late, engine.Step{Op: "setcur", Bar: bar, N: rapid.Int64Range(0, 30).Draw(t, "lc")})
		case 6:
			late = append(late, engine.Step{Op: "settotal", Bar: bar, N: rapid.Int64Range(-1, 30).Draw(t, "lt"), Flag: rapid.Bool().Draw(t, "lcomp")})
		case 7:
			late = append(late, engine.Step{Op: "abort", Bar: bar, Flag: rapid.Bool().Draw(t, "ldrop")})
		case 8:
			late = append(late, engine.Step{Op: "etc", Bar: bar})
		case 9:
			late = append(late, engine.Step{Op: rapid.SampledFrom([]string{"prio", "uprio"}).Draw(t, "lp"), Bar: bar, N: int64(rapid.IntRange(-3, 8).Draw(t, "lpv")), Flag: rapid.Bool().Draw(t, "llazy")})
		case 10:
			late = append(late, engine.Step{Op: "proxy", Bar: bar, N: 10})
		case 11:
			late = append(late, engine.Step{Op: rapid.SampledFrom([]string{"traverse", "id", "refill", "barwait"}).Draw(t, "lmisc"), Bar: bar, N: 3})
		default:
			late = append(late, engine.Step{Op: "get", Bar: bar})
		}
	}
	return late
}

func genC02(t *rapid.T) interface{} {
	excludedKnown = 0
	sc := genConcurrent(t, &profC02)
	c01Exclude(sc)
	sc.Late = genLate(t, sc)
	vstat.Excluded(excludedKnown)
	return sc
}

func runC02(ci interface{}) Result {
	sc := ci.(*engine.Scenario)
	var r Result
	tr := engine.Run(sc, engine.Options{})
	if tr.Inconclusive != "" {
		r.Inconclusive = true
		vstat.Note("inconclusive: " + tr.Inconclusive)
		return r
	}
	r.Classes = append(append(r.Classes, "refresh:"+sc.Cfg.Refresh), featureClasses(sc)...)
	if tr.Hang != nil {
		dumpHang(sc, tr)
		r.Err = fmt.Errorf("%s: a call does not return (%s); goroutines: %v", tr.Hang.Kind, tr.Hang.AtStep, tr.Hang.Where)
		r.Kind = tr.Hang.Kind
		return r
	}
	// calls that raced with the done event: one of the two legal outcomes
	for _, a := range tr.Adds {
		if a.Err != nil && !errors.Is(a.Err, mpb.ErrDone) {
			r.Err, r.Kind = fmt.Errorf("Add of bar %d returned error %v (legal: nil or ErrDone)", a.Bar, a.Err), "add-result"
			return r
		}
	}
	for _, w := range tr.Writes {
		okRes := (w.Err == nil && w.N == len(w.Text)) || (errors.Is(w.Err, mpb.ErrDone) && w.N == 0)
		if !okRes {
			r.Err, r.Kind = fmt.Errorf("Write(%q) returned (%d, %v) (legal: (%d, nil) or (0, ErrDone))", w.Text, w.N, w.Err, len(w.Text)), "write-result"
			return r
		}
	}
	// late calls
	for _, a := range tr.LateAdds {
		if !errors.Is(a.Err, mpb.ErrDone) {
			r.Err, r.Kind = fmt.Errorf("Add after Wait returned error %v, want ErrDone", a.Err), "late-add"
			return r
		}
	}
	for _, w := range tr.LateWrites {
		if w.N != 0 || !errors.Is(w.Err, mpb.ErrDone) {
			r.Err, r.Kind = fmt.Errorf("Write after Wait returned (%d, %v), want (0, ErrDone)", w.N, w.Err), "late-write"
			return r
		}
	}
	if tr.LateProxyNonNil > 0 {
		r.Err, r.Kind = fmt.Errorf("%d of %d ProxyReader/ProxyWriter calls after Wait returned a proxy, want nil", tr.LateProxyNonNil, tr.LateProxies), "late-proxy"
		return r
	}
	fin := map[int]engine.GetRec{}
	for _, g := range tr.Final {
		fin[g.Bar] = g
	}
	for _, g := range tr.FinalLate {
		f, ok := fin[g.Bar]
		if !ok {
			continue
		}
		if g.Cur != f.Cur || g.Completed != f.Completed || g.Aborted != f.Aborted || g.Running {
			r.Err, r.Kind = fmt.Errorf("bar %d: after Wait it reported current=%d completed=%v aborted=%v; after the late calls %v it reports current=%d completed=%v aborted=%v running=%v", g.Bar, f.Cur, f.Completed, f.Aborted, sc.Late, g.Cur, g.Completed, g.Aborted, g.Running), "late-mutation"
			return r
		}
	}
	// getters issued late inside the suffix must already show the final values
	for _, g := range tr.Gets {
		if g.Step >= len(sc.Steps) {
			if f, ok := fin[g.Bar]; ok && (g.Cur != f.Cur || g.Completed != f.Completed || g.Aborted != f.Aborted) {
				r.Err, r.Kind = fmt.Errorf("bar %d: a late getter returned current=%d completed=%v aborted=%v, the final values are current=%d completed=%v aborted=%v", g.Bar, g.Cur, g.Completed, g.Aborted, f.Cur, f.Completed, f.Aborted), "late-getter"
				return r
			}
		}
	}
	if tr.LateChunks > 0 {
		r.Err, r.Kind = fmt.Errorf("%d write(s) reached the output after Wait had returned", tr.LateChunks), "late-output"
		return r
	}
	// Bar.ID: the BarID option, else the creation order
	for k, bar := range tr.AddOrder {
		want := k
		if sc.Bars[bar].ID != 0 {
			want = sc.Bars[bar].ID
			r.Classes = append(r.Classes, "bar-id-option")
		}
		if got, ok := tr.IDs[bar]; ok && got != want {
			r.Err, r.Kind = fmt.Errorf("bar %d (added %d-th, BarID option %d) reports ID()=%d, want %d", bar, k, sc.Bars[bar].ID, got, want), "bar-id"
			return r
		}
	}
	if tr.CancelSeq != 0 {
		r.Classes = append(r.Classes, "done-inside-history")
	}
	for _, e := range tr.Events {
		if e.Point == "client.fillerr" || e.Point == "client.exterr" {
			r.Classes = append(r.Classes, "render-fault")
			break
		}
	}
	if len(tr.LateAdds) > 0 {
		r.Classes = append(r.Classes, "late-add")
	}
	if len(tr.LateWrites) > 0 {
		r.Classes = append(r.Classes, "late-write")
	}
	if tr.LateProxies > 0 {
		r.Classes = append(r.Classes, "late-proxy")
	}
	nAdded := 0
	for _, a := range tr.Added {
		if a {
			nAdded++
		}
	}
	q := sc.Cfg.QueueLen
	if q >= 0 && nAdded > q {
		r.Classes = append(r.Classes, "n>q")
	}
	raced := false
	for _, a := range tr.Adds {
		if a.Err != nil {
			raced = true
		}
	}
	for _, w := range tr.Writes {
		if w.Err != nil {
			raced = true
		}
	}
	if raced {
		r.Classes = append(r.Classes, "call-lost-race-with-done")
	}
	r.Nontrivial = tr.CancelSeq != 0 && len(sc.Late) > 0
	return r
}
