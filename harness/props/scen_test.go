package props

import (
	"fmt"
	"math"

	"github.com/vbauerster/mpb/v8/decor"
	"pgregory.net/rapid"
	"verif/harness/engine"
)

// Profile steers the scenario generator towards the features a property
// quantifies over. All random choices are rapid draws.
type Profile struct {
	MaxBars        int
	MinBars        int
	MaxSteps       int
	Refresh        []string // choices
	QLens          []int    // -1 default, -2 = n-1, -3 = n, -4 = n+1 (relative to bar count)
	Pop            int      // percent of scenarios in pop mode
	Queue          int      // percent chance a bar (index>0) queues after an earlier one
	Prio           bool     // explicit priorities and priority ops
	Ext            int      // percent of bars with extender rows
	Text           int      // weight of write steps
	Rm             int      // percent rm-on-complete
	NoPop          int
	AbortW         int // weight of abort steps
	SyncDecors     int // max synchronised decorators per side
	PlainDecors    int
	Wraps          bool
	Listeners      int // percent of decorators that are shutdown listeners
	SmallWidth     int // percent of scenarios with WithWidth 3..12 (height clipping on buffers)
	Pty            int // percent using a pty
	Cancel         int // percent of scenarios with a cancel/shutdown step
	Delay          int
	DelayNever     int // % of delayed containers whose delay is never released
	DelaySleep     int // % of delayed containers whose final release is followed by a pause, not by empty Writes
	Notifier       int
	UserWG         int  // percent of containers with WithWaitGroup
	Gets           int  // weight of get steps
	PostTerm       bool // allow mutators after the terminal event
	PostTermWait   bool // ... and Bar.Wait / getters on finished bars
	Fillers        []string
	TicksW         int
	NegIncr        bool
	BigTotals      bool
	OnCompleteFill int
	LateAdd        bool
	LateSuccW      int // weight of the macro "successors created for a bar that has already finished" (0-3 frames after it finished, 1-2 successors)
	Epilogues      []string
	BuiltinPct     int  // percent of bars that also carry 1-2 of the library's own decorators
	DisabledPct    int  // percent of decorators switched off through decor.OnCondition(d, false)
	EwmaPct        int  // percent of decorators that also implement EwmaDecorator
	NoDecorPct     int  // percent of bars without any decorator (besides the row tag)
	BarePct        int  // percent of bars without any decorator, row tag included
	ChurnW         int  // weight of the macro "finish a bar, two render cycles, add the next bar" (one leaves, one joins between two frames)
	PrioExtreme    bool // priorities from the whole int range now and then
	PrioOnFinished bool // priority changes also on bars that have finished
	PrioMidRender  int  // % of priority changes issued while a frame renders
	AddTick        int  // % of adds during which an option callback requests a frame
	AddAfterCancel int  // % of cancelled programs that call Add right after the cancel
	OutSlow        int  // % of buffer outputs whose Write takes 0.1-1.5 ms
	DebugNil       int  // % of containers built with WithDebugOutput(nil)
	Peer           int  // % of containers without synchronised decorators in which decorators read an earlier bar while they are drawn
	StaticTexts    bool // one text per decorator
	RepeatText     int  // weight of the macro "same text written in consecutive frames"
	Faults         int  // percent of scenarios with one filler/extender fault
	PtyRowsMax     int
}

// pct is true with probability p/100. rapid's integer generators are biased
// towards small values (IntRange(0,99) < 35 comes up ~64% of the time), so the
// number is assembled from fair coin flips instead.
func pct(t *rapid.T, p int, label string) bool {
	if p <= 0 {
		return false
	}
	if p >= 100 {
		return true
	}
	v := 0
	for i := 0; i < 7; i++ {
		v <<= 1
		if rapid.Bool().Draw(t, label) {
			v |= 1
		}
	}
	return v*100 < p*128
}

// extremePrios stay above the range pop-completed mode uses for finished bars
// (math.MinInt32 upwards, one step per popped bar).
var extremePrios = []int{math.MaxInt64, math.MaxInt64 - 1, 1 << 62, 1 << 40, 1 << 31, 1<<31 - 1, -(1 << 31) + 100000, -(1 << 20), -(1 << 30)}

var decorTexts = []string{"", "a", "ab", "abc", "wide世", "世界", "xxxxxxxx", "0123456789ab", "é", "12", "longer text here"}

func genDecorSpec(t *rapid.T, prof *Profile, sync bool, side int) engine.DecorSpec {
	d := engine.DecorSpec{Side: side}
	n := rapid.IntRange(1, 3).Draw(t, "ntexts")
	if prof.StaticTexts {
		n = 1 // rows that do not change from frame to frame unless the bar does
	}
	for i := 0; i < n; i++ {
		d.Texts = append(d.Texts, rapid.SampledFrom(decorTexts).Draw(t, "dtext"))
	}
	d.W = rapid.OneOf(rapid.Just(0), rapid.IntRange(0, 12)).Draw(t, "W")
	d.C = rapid.IntRange(0, 3).Draw(t, "Cflags") // indent right / extra space
	if sync {
		d.C |= decor.DSyncWidth
	}
	if prof.Wraps && rapid.Bool().Draw(t, "wrapped") {
		nw := rapid.IntRange(1, 3).Draw(t, "nwrap")
		for i := 0; i < nw; i++ {
			d.Wrap = append(d.Wrap, rapid.SampledFrom([]string{"oncomplete", "onabort", "meta", "oncompletemeta", "onabortmeta", "ocoa", "ocmoam", "oncomplete-e", "onabort-e", "ocoa-e", "cond", "pred", "condelse"}).Draw(t, "wrap"))
		}
	}
	d.Disabled = pct(t, prof.DisabledPct, "disabled")
	d.Listener = pct(t, prof.Listeners, "listener")
	d.Ewma = pct(t, prof.EwmaPct, "ewmadecor")
	if !d.Listener && !d.Ewma && !d.Disabled {
		d.ViaAny = pct(t, 12, "viaany")
	}
	return d
}

func genBarSpec(t *rapid.T, prof *Profile, idx int, succOf map[int]bool) engine.BarSpec {
	b := engine.BarSpec{QueueAfter: -1}
	switch rapid.IntRange(0, 5).Draw(t, "totalkind") {
	case 0:
		b.Total = 0
	case 1:
		b.Total = rapid.Int64Range(-3, 0).Draw(t, "negtotal")
	default:
		b.Total = rapid.Int64Range(1, 20).Draw(t, "total")
	}
	if prof.BigTotals && pct(t, 10, "bigtotal") {
		b.Total = genNonNegInt64(t, "bigtotalv")
	}
	if prof.Prio && rapid.Bool().Draw(t, "hasprio") {
		p := rapid.IntRange(-3, 6).Draw(t, "prio")
		if prof.PrioExtreme && pct(t, 20, "extremeprio") {
			p = rapid.SampledFrom(extremePrios).Draw(t, "xprio")
		}
		b.Priority = &p
	}
	b.Trim = pct(t, 20, "trim")
	if pct(t, 12, "barwidth") {
		b.BarWidth = rapid.IntRange(1, 120).Draw(t, "barwidthv")
	}
	if pct(t, 15, "barid") {
		b.ID = rapid.IntRange(1, 1000).Draw(t, "baridv")
	}
	b.RmOnComplete = pct(t, prof.Rm, "rm")
	b.NoPop = pct(t, prof.NoPop, "nopop")
	if idx > 0 && pct(t, prof.Queue, "queue") {
		a := rapid.IntRange(0, idx-1).Draw(t, "after")
		if !(openFinding("C17-second-successor-overwrites") && succOf[a]) {
			b.QueueAfter = a
			succOf[a] = true
		}
	}
	if pct(t, prof.Ext, "ext") {
		b.ExtRows = rapid.IntRange(1, 3).Draw(t, "extrows")
		b.ExtRev = rapid.Bool().Draw(t, "extrev")
		b.ExtNoNL = pct(t, 25, "extnonl") // last extender line without a newline: dropped by the library
	}
	if len(prof.Fillers) > 0 {
		b.Filler = rapid.SampledFrom(prof.Fillers).Draw(t, "filler")
	}
	if pct(t, prof.OnCompleteFill, "oncompletefill") {
		b.OnComplete = true
		b.OnAbort = rapid.Bool().Draw(t, "onabortfill")
	}
	if pct(t, prof.BarePct, "bare") {
		// no decorator at all, not even the harness's row tag (only for checks that do not read rows)
		b.NoTag = true
		return b
	}
	for side := 0; side < 2 && !pct(t, prof.NoDecorPct, "nodecor"); side++ {
		if prof.SyncDecors > 0 {
			ns := rapid.IntRange(0, prof.SyncDecors).Draw(t, "nsync")
			for i := 0; i < ns; i++ {
				b.Decors = append(b.Decors, genDecorSpec(t, prof, true, side))
			}
		}
		if prof.PlainDecors > 0 {
			np := rapid.IntRange(0, prof.PlainDecors).Draw(t, "nplain")
			for i := 0; i < np; i++ {
				b.Decors = append(b.Decors, genDecorSpec(t, prof, false, side))
			}
		}
	}
	if pct(t, prof.BuiltinPct, "builtins") {
		n := rapid.IntRange(1, 2).Draw(t, "nbuiltin")
		for i := 0; i < n; i++ {
			b.Builtins = append(b.Builtins, rapid.SampledFrom([]string{"avgeta", "avgspeed", "ewmaeta", "ewmaspeed", "counters", "elapsed", "name", "spinner"}).Draw(t, "builtin"))
		}
	}
	// shuffle sync/plain order a little: move a plain decorator in front sometimes
	if len(b.Decors) > 1 && rapid.Bool().Draw(t, "swapdecors") {
		i := rapid.IntRange(0, len(b.Decors)-2).Draw(t, "swapi")
		b.Decors[i], b.Decors[i+1] = b.Decors[i+1], b.Decors[i]
	}
	return b
}

// genScenario draws a sequential ("clocked") scenario.
func genScenario(t *rapid.T, prof *Profile) *engine.Scenario {
	sc := genSetup(t, prof)
	sc.Steps = genSteps(t, prof, sc)
	return sc
}

// genSetup draws the container configuration and the bar specs.
func genSetup(t *rapid.T, prof *Profile) *engine.Scenario {
	sc := &engine.Scenario{}
	nb := rapid.IntRange(max1(prof.MinBars), prof.MaxBars).Draw(t, "nbars")
	sc.Cfg.Refresh = rapid.SampledFrom(prof.Refresh).Draw(t, "refresh")
	if sc.Cfg.Refresh == "autort" {
		sc.Cfg.RateMs = rapid.IntRange(1, 3).Draw(t, "rate")
	}
	q := -1
	if len(prof.QLens) > 0 {
		q = rapid.SampledFrom(prof.QLens).Draw(t, "qlen")
	}
	switch q {
	case -2:
		q = nb - 1
	case -3:
		q = nb
	case -4:
		q = nb + 1
	}
	if q < -1 {
		q = 0
	}
	sc.Cfg.QueueLen = q
	sc.Cfg.Pop = pct(t, prof.Pop, "pop")
	if pct(t, prof.SmallWidth, "smallwidth") {
		sc.Cfg.Width = rapid.IntRange(3, 12).Draw(t, "width")
	}
	if pct(t, prof.Pty, "pty") {
		hi := 12
		if prof.PtyRowsMax > 0 {
			hi = prof.PtyRowsMax
		}
		sc.Cfg.PtyRows = rapid.IntRange(2, hi).Draw(t, "ptyrows")
		sc.Cfg.PtyCols = rapid.IntRange(40, 100).Draw(t, "ptycols")
	}
	sc.Cfg.Delay = pct(t, prof.Delay, "delay")
	if sc.Cfg.Delay && prof.DelaySleep > 0 {
		sc.Cfg.DelaySleepRelease = pct(t, prof.DelaySleep, "delaysleep")
	}
	if sc.Cfg.Delay && prof.DelayNever > 0 {
		sc.Cfg.DelayNever = pct(t, prof.DelayNever, "delaynever")
	}
	sc.Cfg.Notifier = pct(t, prof.Notifier, "notifier")
	if sc.Cfg.PtyRows == 0 && pct(t, prof.OutSlow, "outslow") {
		sc.Cfg.OutSlowUs = rapid.IntRange(100, 1500).Draw(t, "outslowus")
	}
	sc.Cfg.DebugNil = pct(t, prof.DebugNil, "debugnil")
	sc.Cfg.UserWG = pct(t, prof.UserWG, "userwg")
	if sc.Cfg.UserWG {
		sc.Cfg.UserWGUntilDone = rapid.Bool().Draw(t, "userwguntildone")
	}
	if sc.Cfg.Refresh == "manual" && pct(t, 15, "alsoauto") {
		sc.Cfg.AlsoAuto = rapid.IntRange(1, 2).Draw(t, "alsoautoorder")
	}
	succOf := map[int]bool{}
	for i := 0; i < nb; i++ {
		sc.Bars = append(sc.Bars, genBarSpec(t, prof, i, succOf))
	}
	if prof.Peer > 0 && nb >= 2 {
		// "summary" decorators that look at an earlier bar while they are drawn: only
		// where no decorator synchronises its width (a bar waiting for the others'
		// widths inside its own frame cannot answer, whatever the library does)
		syncs := false
		for _, b := range sc.Bars {
			for _, d := range b.Decors {
				if d.C&decor.DSyncWidth != 0 {
					syncs = true
				}
			}
		}
		if !syncs && pct(t, prof.Peer, "peers") {
			for i := 1; i < nb; i++ {
				for di := range sc.Bars[i].Decors {
					if rapid.IntRange(0, 2).Draw(t, "peerhere") == 0 {
						sc.Bars[i].Decors[di].PeerBar = 1 + rapid.IntRange(0, i-1).Draw(t, "peerbar")
					}
				}
			}
		}
	}
	if pct(t, prof.Faults, "fault") {
		i := rapid.IntRange(0, nb-1).Draw(t, "faultbar")
		k := rapid.IntRange(1, 6).Draw(t, "faultk")
		switch rapid.IntRange(0, 4).Draw(t, "faultkind") {
		case 0:
			sc.Bars[i].ExtErrAt = k
		case 1:
			if sc.Cfg.PtyRows == 0 {
				sc.OutErrAt = k
				sc.OutShort = rapid.Bool().Draw(t, "faultshort")
			} else {
				sc.Bars[i].FillErrAt = k
			}
		default:
			sc.Bars[i].FillErrAt = k
		}
	}
	eps := prof.Epilogues
	if len(eps) == 0 {
		eps = []string{"complete", "abort", "mixed"}
	}
	sc.Epilogue = rapid.SampledFrom(eps).Draw(t, "epilogue")
	return sc
}

func max1(n int) int {
	if n < 1 {
		return 1
	}
	return n
}

var excludedKnown int64

type genBar struct {
	m     *engine.MBar
	added bool
}

// genSteps draws a sequential program. A generator-side copy of the bar model
// keeps programs inside what a user may do (and inside the model's domain).
func genSteps(t *rapid.T, prof *Profile, sc *engine.Scenario) []engine.Step {
	nb := len(sc.Bars)
	gb := make([]*genBar, nb)
	for i := range gb {
		gb[i] = &genBar{}
	}
	var steps []engine.Step
	nextAdd := 0
	ticksSinceTerm := make([]int, nb) // render cycles requested since the bar finished
	everLive := make([]bool, nb)      // some other bar was running at every tick since it finished (no early refresh)
	tainted := make([]bool, nb)       // frames not clocked by the program may have been drawn since it finished (early refresh of any bar)
	noted := 0
	// note brings the bookkeeping of the late-successor rule up to date with the
	// steps appended so far
	note := func() {
		for _, st := range steps[noted:] {
			for i, g := range gb {
				if !g.added || !g.m.Terminal() {
					ticksSinceTerm[i] = 0
					everLive[i] = true
					continue
				}
				if st.Op == "tick" || st.Op == "add" && st.Flag {
					ticksSinceTerm[i]++
				}
				if st.Op == "barwait" {
					ticksSinceTerm[i] += 2 // Bar.Wait returns once the bar has been through its last frames
				}
				otherLive := false
				for j, h := range gb {
					if j != i && h.added && !h.m.Terminal() && sc.Bars[j].QueueAfter < 0 {
						otherLive = true
					}
				}
				if !otherLive {
					everLive[i] = false
				}
			}
			// a bar that finishes while nothing else runs asks for frames by itself
			// until it has been through its last two; those frames also advance every
			// other finished bar
			earlyRefresh := false
			for i, g := range gb {
				if g.added && g.m.Terminal() && !everLive[i] && ticksSinceTerm[i] < 2 {
					earlyRefresh = true
				}
			}
			for i, g := range gb {
				if !g.added || !g.m.Terminal() {
					tainted[i] = false
				} else if earlyRefresh && ticksSinceTerm[i] < 2 {
					tainted[i] = true
				}
			}
		}
		noted = len(steps)
	}
	add := func() {
		note()
		if nextAdd < nb {
			if a := sc.Bars[nextAdd].QueueAfter; a >= 0 && sc.Cfg.Refresh != "manual" && openFinding("C17-late-successor") && gb[a].m.Terminal() {
				// auto modes: the predecessor's terminal frames are in general not
				// clocked by the program, so "created after the predecessor was
				// flushed" cannot be ruled out — except with injected ticks while some
				// other bar is still running (no early refresh then) and fewer than
				// two render cycles since the predecessor finished
				otherLive := false
				for j, g := range gb {
					if j != a && g.added && !g.m.Terminal() && sc.Bars[j].QueueAfter < 0 {
						otherLive = true
					}
				}
				if !(sc.Cfg.Refresh == "autoinj" && otherLive && ticksSinceTerm[a] < 2 && everLive[a] && !tainted[a]) {
					sc.Bars[nextAdd].QueueAfter = -1
					excludedKnown++
				}
			}
			st := engine.Step{Op: "add", Bar: nextAdd}
			if prof.AddTick > 0 && (sc.Cfg.Refresh == "manual" || sc.Cfg.Refresh == "autoinj") && pct(t, prof.AddTick, "addtick") {
				st.Flag = true // a frame is requested from inside an option callback of this Add
			}
			steps = append(steps, st)
			gb[nextAdd].added = true
			gb[nextAdd].m = engine.NewMBar(sc.Bars[nextAdd].Total)
			nextAdd++
		}
	}
	// most programs add some bars first
	first := rapid.IntRange(1, nb).Draw(t, "firstadds")
	if !prof.LateAdd {
		first = nb
	}
	for i := 0; i < first; i++ {
		add()
	}
	n := rapid.IntRange(0, prof.MaxSteps).Draw(t, "nsteps")
	cancelAt := -1
	if pct(t, prof.Cancel, "hascancel") {
		cancelAt = rapid.IntRange(0, n).Draw(t, "cancelat")
	}
	released := !sc.Cfg.Delay
	manual := sc.Cfg.Refresh == "manual" || sc.Cfg.Refresh == "none"
	wcount := 0
	for k := 0; k < n; k++ {
		note() // (step by step: the bookkeeping looks at the model state after each choice)
		if k == cancelAt {
			op := "cancel"
			if rapid.Bool().Draw(t, "shutdown") {
				op = "shutdown"
			}
			steps = append(steps, engine.Step{Op: op})
			if prof.AddAfterCancel > 0 && pct(t, prof.AddAfterCancel, "addaftercancel") {
				// Adds racing with the shutdown: refused, or accepted and aborted at once
				for n := rapid.IntRange(1, 2).Draw(t, "naddaftercancel"); n > 0 && nextAdd < nb; n-- {
					sc.Bars[nextAdd].QueueAfter = -1
					steps = append(steps, engine.Step{Op: "add", Bar: nextAdd})
					nextAdd++
				}
				// ...and Bar.Wait on bars the cancellation ends, followed at once by the getters
				if prof.PostTermWait {
					for i, g := range gb {
						if g.added && sc.Bars[i].QueueAfter < 0 && rapid.Bool().Draw(t, "waitaftercancel") {
							steps = append(steps, engine.Step{Op: "barwait", Bar: i}, engine.Step{Op: "get", Bar: i})
						}
					}
				}
			}
			break
		}
		// weights
		type choice struct {
			w  int
			fn func()
		}
		var live, term, any []int
		for i, g := range gb {
			if g.added {
				any = append(any, i)
				if g.m.Terminal() {
					term = append(term, i)
				} else {
					live = append(live, i)
				}
			}
		}
		pickLive := func(label string) int { return rapid.SampledFrom(live).Draw(t, label) }
		var cs []choice
		if nextAdd < nb {
			cs = append(cs, choice{3, add})
		}
		if sc.Cfg.Refresh != "none" && sc.Cfg.Refresh != "autort" {
			cs = append(cs, choice{prof.TicksW, func() { steps = append(steps, engine.Step{Op: "tick"}) }})
		}
		if sc.Cfg.Refresh == "autort" {
			cs = append(cs, choice{2, func() {
				steps = append(steps, engine.Step{Op: "sleep", N: int64(rapid.IntRange(0, 3000).Draw(t, "sleepus"))})
			}})
		}
		if len(live) > 0 {
			cs = append(cs, choice{6, func() {
				i := pickLive("incrbar")
				g := gb[i]
				var nn int64
				if g.m.Total > 0 && g.m.Total < 1<<40 {
					nn = rapid.Int64Range(0, g.m.Total+2).Draw(t, "incrn")
				} else {
					nn = rapid.Int64Range(0, 25).Draw(t, "incrn0")
				}
				if prof.NegIncr && pct(t, 10, "neg") {
					nn = -rapid.Int64Range(1, 5).Draw(t, "negn")
				}
				if !g.m.IncrOK(nn) {
					nn = 0
				}
				variant := rapid.SampledFrom([]string{"", "", "by", "one", "ewma", "ewmaby", "ewmaone"}).Draw(t, "incrvariant")
				st := engine.Step{Op: "incr", Bar: i, N: nn, Text: variant}
				if variant == "one" || variant == "ewmaone" {
					st.N = 1
					if !g.m.IncrOK(1) {
						return
					}
				}
				if (variant == "by" || variant == "ewmaby") && (st.N > 1<<31-1 || st.N < -(1<<31)) {
					st.Text = ""
				}
				g.m.Apply(&st)
				steps = append(steps, st)
			}})
			cs = append(cs, choice{2, func() {
				i := pickLive("setcurbar")
				g := gb[i]
				hi := g.m.Total + 2
				if hi < 10 {
					hi = 10
				}
				if hi > 1<<40 {
					hi = 1 << 40
				}
				v := rapid.Int64Range(-1, hi).Draw(t, "setcurv")
				st := engine.Step{Op: "setcur", Bar: i, N: v}
				if rapid.IntRange(0, 3).Draw(t, "ewmaset") == 0 {
					st.Text = "ewma"
				}
				g.m.Apply(&st)
				steps = append(steps, st)
			}})
			cs = append(cs, choice{2, func() {
				i := pickLive("settotalbar")
				v := rapid.Int64Range(-2, 30).Draw(t, "settotalv")
				st := engine.Step{Op: "settotal", Bar: i, N: v, Flag: rapid.IntRange(0, 3).Draw(t, "complete") == 0}
				gb[i].m.Apply(&st)
				steps = append(steps, st)
			}})
			cs = append(cs, choice{1, func() {
				i := pickLive("etcbar")
				st := engine.Step{Op: "etc", Bar: i}
				gb[i].m.Apply(&st)
				steps = append(steps, st)
			}})
			cs = append(cs, choice{1, func() {
				i := pickLive("refillbar")
				st := engine.Step{Op: "refill", Bar: i, N: rapid.Int64Range(-1, 30).Draw(t, "refillv")}
				gb[i].m.Apply(&st)
				steps = append(steps, st)
			}})
			if prof.AbortW > 0 {
				cs = append(cs, choice{prof.AbortW, func() {
					i := pickLive("abortbar")
					st := engine.Step{Op: "abort", Bar: i, Flag: rapid.Bool().Draw(t, "drop")}
					gb[i].m.Apply(&st)
					steps = append(steps, st)
				}})
			}
			if prof.Prio {
				cs = append(cs, choice{3, func() {
					i := pickLive("priobar")
					if prof.PrioOnFinished && len(term) > 0 && rapid.IntRange(0, 2).Draw(t, "prioterm") == 0 {
						i = rapid.SampledFrom(term).Draw(t, "priotermbar") // a finished bar that may still be displayed
					}
					v := int64(rapid.IntRange(-3, 8).Draw(t, "priov"))
					if prof.PrioExtreme && pct(t, 15, "extremepriov") {
						v = int64(rapid.SampledFrom(extremePrios).Draw(t, "xpriov"))
					}
					if prof.PrioMidRender > 0 && (sc.Cfg.Refresh == "manual" || sc.Cfg.Refresh == "autoinj") && pct(t, prof.PrioMidRender, "priomid") {
						// issued by a client goroutine while a frame is being rendered
						steps = append(steps, engine.Step{Op: "tick", Bar: i, N: v, Text: rapid.SampledFrom([]string{"prio", "uprio", "uprio-lazy"}).Draw(t, "priomidkind")})
					} else if rapid.Bool().Draw(t, "lazy?") {
						steps = append(steps, engine.Step{Op: "uprio", Bar: i, N: v, Flag: rapid.Bool().Draw(t, "lazy")})
					} else {
						steps = append(steps, engine.Step{Op: "prio", Bar: i, N: v})
					}
				}})
			}
		}
		if prof.ChurnW > 0 && len(live) > 0 && nextAdd < nb && sc.Cfg.Refresh != "none" && sc.Cfg.Refresh != "autort" {
			cs = append(cs, choice{prof.ChurnW, func() {
				i := pickLive("churnbar")
				var st engine.Step
				if rapid.Bool().Draw(t, "churnabort") {
					st = engine.Step{Op: "abort", Bar: i, Flag: true}
				} else {
					st = engine.Step{Op: "settotal", Bar: i, N: -1, Flag: true}
					if gb[i].m.Trig {
						st = engine.Step{Op: "setcur", Bar: i, N: gb[i].m.Total}
						if gb[i].m.Total < 0 {
							st = engine.Step{Op: "abort", Bar: i, Flag: true}
						}
					}
				}
				gb[i].m.Apply(&st)
				steps = append(steps, st, engine.Step{Op: "tick"}, engine.Step{Op: "tick"})
				add()
				steps = append(steps, engine.Step{Op: "tick"})
			}})
		}
		if prof.LateSuccW > 0 && len(term) > 0 && nextAdd < nb && (sc.Cfg.Refresh == "manual" || sc.Cfg.Refresh == "autoinj") {
			cs = append(cs, choice{prof.LateSuccW, func() {
				// bars queued after a bar that has finished: before its hand-over frame,
				// right at it, or after it has left (they then come in at once)
				pred := rapid.SampledFrom(term).Draw(t, "latepred")
				for k := rapid.IntRange(0, 3).Draw(t, "lateticks"); k > 0; k-- {
					steps = append(steps, engine.Step{Op: "tick"})
				}
				for n := rapid.IntRange(1, 2).Draw(t, "latesuccs"); n > 0 && nextAdd < nb; n-- {
					if !(openFinding("C17-late-successor") || openFinding("C17-second-successor-overwrites")) {
						sc.Bars[nextAdd].QueueAfter = pred
					}
					add()
				}
				steps = append(steps, engine.Step{Op: "tick"})
			}})
		}
		if prof.PostTerm && len(term) > 0 {
			cs = append(cs, choice{4, func() {
				i := rapid.SampledFrom(term).Draw(t, "ptbar")
				g := gb[i]
				// in manual/none mode a mutator after abort races with the bar's shutdown
				hi := 4
				if prof.PostTermWait {
					hi = 7
				}
				switch rapid.IntRange(0, hi).Draw(t, "ptop") {
				case 0:
					steps = append(steps, engine.Step{Op: "abort", Bar: i, Flag: rapid.Bool().Draw(t, "ptdrop")})
				case 1:
					// (every flavour of increment: they do not share all of their code)
					st := engine.Step{Op: "incr", Bar: i, N: rapid.Int64Range(0, 30).Draw(t, "ptincr"), Text: rapid.SampledFrom([]string{"", "by", "one", "ewma", "ewmaby", "ewmaone"}).Draw(t, "ptincrvariant")}
					if st.Text == "one" || st.Text == "ewmaone" {
						st.N = 1
					}
					steps = append(steps, st)
				case 2:
					steps = append(steps, engine.Step{Op: "setcur", Bar: i, N: g.m.Cur + rapid.Int64Range(0, 30).Draw(t, "ptset"), Text: rapid.SampledFrom([]string{"", "ewma"}).Draw(t, "ptsetvariant")})
				case 3:
					steps = append(steps, engine.Step{Op: "settotal", Bar: i, N: rapid.Int64Range(-1, 30).Draw(t, "pttot"), Flag: rapid.Bool().Draw(t, "ptcomplete")})
				case 4:
					steps = append(steps, engine.Step{Op: "etc", Bar: i})
				case 5:
					// Bar.Wait on a finished bar; a bar still parked behind an unfinished
					// predecessor would block its own client, so those are only read
					if sc.Bars[i].QueueAfter < 0 {
						steps = append(steps, engine.Step{Op: "barwait", Bar: i})
					} else {
						steps = append(steps, engine.Step{Op: "get", Bar: i})
					}
				default:
					steps = append(steps, engine.Step{Op: "get", Bar: i})
				}
				_ = manual
			}})
		}
		if prof.Text > 0 {
			cs = append(cs, choice{prof.Text, func() {
				body := rapid.StringMatching(`[a-z ]{0,30}`).Draw(t, "wbody")
				steps = append(steps, engine.Step{Op: "write", Text: fmt.Sprintf("w0.%d:%s\n", wcount, body)})
				wcount++
			}})
		}
		if prof.RepeatText > 0 && sc.Cfg.Refresh != "none" && sc.Cfg.Refresh != "autort" {
			cs = append(cs, choice{prof.RepeatText, func() {
				txt := fmt.Sprintf("wR.%d:heartbeat\n", rapid.IntRange(0, 1).Draw(t, "rtext"))
				n := rapid.IntRange(2, 4).Draw(t, "rcount")
				for i := 0; i < n; i++ {
					steps = append(steps, engine.Step{Op: "write", Text: txt}, engine.Step{Op: "tick"})
				}
			}})
		}
		if prof.Gets > 0 && len(any) > 0 {
			cs = append(cs, choice{prof.Gets, func() {
				// (Flag: two more goroutines poll Completed and Aborted meanwhile)
				steps = append(steps, engine.Step{Op: "get", Bar: rapid.SampledFrom(any).Draw(t, "getbar"), Flag: rapid.IntRange(0, 2).Draw(t, "polled") == 0})
			}})
		}
		if !released && !sc.Cfg.DelayNever {
			cs = append(cs, choice{2, func() { steps = append(steps, engine.Step{Op: "release"}); released = true }})
		}
		total := 0
		for _, c := range cs {
			total += c.w
		}
		if total == 0 {
			break
		}
		x := rapid.IntRange(0, total-1).Draw(t, "op")
		for _, c := range cs {
			if x < c.w {
				c.fn()
				break
			}
			x -= c.w
		}
		note()
	}
	return steps
}

// repairQueue clears the QueueAfter link of successors the model reports as
// parked behind an already flushed predecessor (open finding C17-late-successor).
func repairQueue(sc *engine.Scenario) (excluded int) {
	if !openFinding("C17-late-successor") {
		return 0
	}
	for iter := 0; iter < len(sc.Bars)+1; iter++ {
		s := engine.Simulate(sc)
		if len(s.LateSucc) == 0 {
			return
		}
		for _, i := range s.LateSucc {
			sc.Bars[i].QueueAfter = -1
			excluded++
		}
	}
	return
}

// featureClasses names the generator features a scenario uses, for the
// generator-health check of the driver (required classes must not be empty).
func featureClasses(sc *engine.Scenario) []string {
	var out []string
	if sc.Cfg.Delay && sc.Cfg.DelayNever {
		out = append(out, "delay-never-released")
	}
	if sc.Cfg.DebugNil {
		out = append(out, "debug-output-nil")
	}
	peer := false
	for _, b := range sc.Bars {
		for _, d := range b.Decors {
			peer = peer || d.PeerBar > 0
		}
	}
	if peer {
		out = append(out, "decorator-reads-another-bar")
	}
	seen := map[string]bool{}
	cancelled := false
	for _, st := range sc.Steps {
		switch {
		case st.Op == "tick" && st.Text != "":
			seen["priority-change-mid-render"] = true
		case st.Op == "add" && st.Flag && !cancelled:
			seen["add-requests-frame"] = true
		case st.Op == "add" && cancelled:
			seen["add-after-cancel"] = true
		case st.Op == "cancel" || st.Op == "shutdown":
			cancelled = true
		}
	}
	for k := range seen {
		out = append(out, k)
	}
	return out
}
