package props

import (
	"encoding/json"
	"fmt"
	"os"
	"testing"

	"verif/harness/engine"
)

// TestDebugScenario runs the scenario in $VERIF_DEBUG_SCENARIO (a replay file
// or a bare scenario JSON) once and prints what was observed.
func TestDebugScenario(t *testing.T) {
	path := os.Getenv("VERIF_DEBUG_SCENARIO")
	if path == "" {
		t.Skip()
	}
	b, err := os.ReadFile(path)
	if err != nil {
		t.Fatal(err)
	}
	var wrap struct {
		Case json.RawMessage `json:"case"`
	}
	sc := new(engine.Scenario)
	if json.Unmarshal(b, &wrap) == nil && len(wrap.Case) > 0 {
		b = wrap.Case
	}
	if err := json.Unmarshal(b, sc); err != nil {
		t.Fatal(err)
	}
	tr := engine.Run(sc, engine.Options{LeakCheck: true})
	fmt.Printf("hang=%+v inconclusive=%q cycles=%d waitseq=%d late=%d debug=%q\n", tr.Hang, tr.Inconclusive, tr.Cycles, tr.WaitSeq, tr.LateChunks, tr.Debug)
	for i, f := range tr.Frames() {
		if i > 40 {
			fmt.Println("...")
			break
		}
		fmt.Printf("frame %d cuu=%d: %q\n", i, f.CUU, f.Raw)
	}
	fmt.Printf("final=%+v\nnotified=%v\ngets=%+v\n", tr.Final, tr.Notified, tr.Gets)
	if sim := engine.Simulate(sc); sim.OK {
		for i, f := range sim.Frames {
			fmt.Printf("model frame %d: order=%v sd=%v cuu=%d text=%q\n", i, f.Order, f.SD, f.CUU, f.Text)
		}
		fmt.Printf("model: late=%v overwrote=%v final=%v\n", sim.LateSucc, sim.Overwrote, sim.FinalHeap)
	} else {
		fmt.Println("model not applicable:", sim.Why)
	}
	for _, g := range tr.Leaks {
		fmt.Printf("leak: [%s] %s\n", g.State, g.Stack)
	}
}
