package props

import (
	"bytes"
	"errors"
	"fmt"
	"io"
	"sync"
	"time"

	mpb "github.com/vbauerster/mpb/v8"
	"github.com/vbauerster/mpb/v8/decor"
	"pgregory.net/rapid"
)

// C19 — proxy readers and writers are transparent and account every byte.
//
// Differential oracle: a scripted underlying reader/writer (short transfers,
// n>0 with error, EOF with data, errors at any call, optional Close and
// WriteTo/ReadFrom) is consumed once through the proxy and once bare, by the
// same generated consumer; every (n, err, bytes) observed by the caller, every
// call seen by the underlying value and the bytes arriving at the other side
// must be identical. The bar must advance by exactly the bytes transferred and
// recording moving-average decorators must receive one sample per transfer.

type c19Step struct {
	Max     int  `json:"max"`               // bytes moved by this underlying call at most; -1 = no limit
	Err     bool `json:"err,omitempty"`     // the call also returns an error
	EOFData bool `json:"eofdata,omitempty"` // reader: return io.EOF together with the last bytes
	DelayUs int  `json:"delay_us,omitempty"`
}

type c19Call struct {
	Op   string `json:"op"` // rw (Read/Write of Size bytes) | copy | readall | fast (WriteTo/ReadFrom directly) | close
	Size int    `json:"size,omitempty"`
}

type c19Case struct {
	Dir     string    `json:"dir"` // read | write
	Closer  bool      `json:"closer"`
	Fast    bool      `json:"fast"` // underlying implements io.WriterTo / io.ReaderFrom
	Len     int       `json:"len"`  // stream length
	Seed    int       `json:"seed"`
	Total   int64     `json:"total"` // bar total (<=0: unknown)
	Ewma    int       `json:"ewma"`  // number of moving-average decorators
	Depth   int       `json:"depth"` // wrapper layers around each of them
	Plain   int       `json:"plain"` // other decorators
	Refresh string    `json:"refresh"`
	Script  []c19Step `json:"script"`
	Calls   []c19Call `json:"calls"`
}

func init() {
	register(&Prop{ID: "C19", Gen: genC19, New: func() interface{} { return new(c19Case) }, Run: runC19})
}

func genC19(t *rapid.T) interface{} {
	c := &c19Case{}
	c.Dir = rapid.SampledFrom([]string{"read", "write"}).Draw(t, "dir")
	c.Closer = rapid.Bool().Draw(t, "closer")
	c.Fast = rapid.Bool().Draw(t, "fast")
	c.Len = rapid.OneOf(rapid.IntRange(0, 64), rapid.IntRange(0, 5000), rapid.IntRange(30000, 70000)).Draw(t, "len")
	c.Seed = rapid.IntRange(0, 255).Draw(t, "seed")
	switch rapid.IntRange(0, 5).Draw(t, "totalkind") {
	case 0:
		c.Total = 0
	case 1:
		c.Total = -1
	case 2:
		c.Total = int64(c.Len)
	case 3:
		c.Total = int64(c.Len) + int64(rapid.IntRange(1, 100).Draw(t, "over"))
	case 4:
		if c.Len > 1 {
			c.Total = int64(rapid.IntRange(1, c.Len-1).Draw(t, "under"))
		}
	default:
		c.Total = int64(c.Len) * 2
	}
	c.Ewma = rapid.SampledFrom([]int{0, 0, 1, 1, 2, 3}).Draw(t, "ewma")
	c.Depth = rapid.IntRange(0, 3).Draw(t, "depth")
	c.Plain = rapid.IntRange(0, 2).Draw(t, "plain")
	c.Refresh = rapid.SampledFrom([]string{"none", "none", "auto"}).Draw(t, "refresh")
	ns := rapid.IntRange(0, 12).Draw(t, "nscript")
	delays := 0
	for i := 0; i < ns; i++ {
		var s c19Step
		switch rapid.IntRange(0, 5).Draw(t, "maxkind") {
		case 0:
			s.Max = -1
		case 1:
			s.Max = 0
		case 2:
			s.Max = rapid.IntRange(1, 8).Draw(t, "maxsmall")
		default:
			s.Max = rapid.IntRange(1, 4096).Draw(t, "max")
		}
		s.Err = rapid.IntRange(0, 7).Draw(t, "err") == 0
		s.EOFData = rapid.IntRange(0, 3).Draw(t, "eofdata") == 0
		if delays < 3 && rapid.IntRange(0, 5).Draw(t, "delay?") == 0 {
			s.DelayUs = rapid.IntRange(50, 400).Draw(t, "delay")
			delays++
		}
		c.Script = append(c.Script, s)
	}
	nc := rapid.IntRange(0, 10).Draw(t, "ncalls")
	for i := 0; i < nc; i++ {
		var k c19Call
		switch rapid.IntRange(0, 9).Draw(t, "callkind") {
		case 0:
			k.Op = "close"
		case 1:
			k.Op = "fast"
		case 2:
			k.Op = "copy"
		case 3:
			if c.Dir == "read" {
				k.Op = "readall"
			} else {
				k.Op = "copy"
			}
		default:
			k.Op = "rw"
			k.Size = rapid.OneOf(rapid.IntRange(0, 16), rapid.IntRange(0, 2048), rapid.Just(32768)).Draw(t, "size")
		}
		c.Calls = append(c.Calls, k)
	}
	if rapid.Bool().Draw(t, "drain") {
		c.Calls = append(c.Calls, c19Call{Op: rapid.SampledFrom([]string{"copy", "fast"}).Draw(t, "drainop")})
	}
	if rapid.Bool().Draw(t, "closeend") {
		c.Calls = append(c.Calls, c19Call{Op: "close"})
	}
	return c
}

type errScript struct{ k int }

func (e errScript) Error() string { return fmt.Sprintf("scripted error at underlying call %d", e.k) }

func c19Data(c *c19Case) []byte {
	d := make([]byte, c.Len)
	for i := range d {
		d[i] = byte(i*131 + c.Seed + i/251)
	}
	return d
}

// ---- scripted underlying reader ---------------------------------------

type rCore struct {
	data   []byte
	pos    int
	script []c19Step
	k      int
	log    []string
	closes int
	calls  []c19Sample // per underlying call (Read or WriteTo): bytes moved, time slept
}

func (r *rCore) step() (c19Step, int) {
	k := r.k
	r.k++
	if k < len(r.script) {
		return r.script[k], k
	}
	return c19Step{Max: -1}, k
}

func (r *rCore) read(p []byte) (int, error) {
	st, k := r.step()
	d := time.Duration(st.DelayUs) * time.Microsecond
	if d > 0 {
		time.Sleep(d)
	}
	n := len(p)
	if st.Max >= 0 && st.Max < n {
		n = st.Max
	}
	if avail := len(r.data) - r.pos; avail < n {
		n = avail
	}
	copy(p, r.data[r.pos:r.pos+n])
	r.pos += n
	r.calls = append(r.calls, c19Sample{int64(n), d})
	var err error
	switch {
	case st.Err:
		err = errScript{k}
	case r.pos == len(r.data) && (n == 0 && len(p) > 0 || st.EOFData):
		err = io.EOF
	}
	r.log = append(r.log, fmt.Sprintf("Read(%d)=%d,%v", len(p), n, err))
	return n, err
}

func (r *rCore) writeTo(w io.Writer) (int64, error) {
	var total int64
	var slept time.Duration
	defer func() { r.calls = append(r.calls, c19Sample{total, slept}) }()
	for {
		st, k := r.step()
		d := time.Duration(st.DelayUs) * time.Microsecond
		if d > 0 {
			time.Sleep(d)
			slept += d
		}
		n := 4096
		if st.Max >= 0 {
			n = st.Max
		}
		if avail := len(r.data) - r.pos; avail < n {
			n = avail
		}
		m, err := w.Write(r.data[r.pos : r.pos+n])
		r.pos += m
		total += int64(m)
		if err != nil {
			r.log = append(r.log, fmt.Sprintf("WriteTo=%d,%v", total, err))
			return total, err
		}
		if st.Err {
			r.log = append(r.log, fmt.Sprintf("WriteTo=%d,scripted", total))
			return total, errScript{k}
		}
		if r.pos == len(r.data) {
			r.log = append(r.log, fmt.Sprintf("WriteTo=%d,nil", total))
			return total, nil
		}
	}
}

func (r *rCore) close() error {
	r.closes++
	r.log = append(r.log, "Close")
	if r.closes > 1 {
		return errors.New("already closed")
	}
	return nil
}

type sReader struct{ c *rCore }
type sReadCloser struct{ c *rCore }
type sReaderWT struct{ c *rCore }
type sReadCloserWT struct{ c *rCore }

func (s sReader) Read(p []byte) (int, error)               { return s.c.read(p) }
func (s sReadCloser) Read(p []byte) (int, error)           { return s.c.read(p) }
func (s sReadCloser) Close() error                         { return s.c.close() }
func (s sReaderWT) Read(p []byte) (int, error)             { return s.c.read(p) }
func (s sReaderWT) WriteTo(w io.Writer) (int64, error)     { return s.c.writeTo(w) }
func (s sReadCloserWT) Read(p []byte) (int, error)         { return s.c.read(p) }
func (s sReadCloserWT) Close() error                       { return s.c.close() }
func (s sReadCloserWT) WriteTo(w io.Writer) (int64, error) { return s.c.writeTo(w) }

func mkReader(c *c19Case, core *rCore) io.Reader {
	switch {
	case c.Closer && c.Fast:
		return sReadCloserWT{core}
	case c.Closer:
		return sReadCloser{core}
	case c.Fast:
		return sReaderWT{core}
	}
	return sReader{core}
}

// ---- scripted underlying writer ----------------------------------------

type wCore struct {
	sink   bytes.Buffer
	script []c19Step
	k      int
	log    []string
	closes int
	calls  []c19Sample
}

func (w *wCore) step() (c19Step, int) {
	k := w.k
	w.k++
	if k < len(w.script) {
		return w.script[k], k
	}
	return c19Step{Max: -1}, k
}

func (w *wCore) write(p []byte) (int, error) {
	st, k := w.step()
	d := time.Duration(st.DelayUs) * time.Microsecond
	if d > 0 {
		time.Sleep(d)
	}
	n := len(p)
	if st.Max >= 0 && st.Max < n {
		n = st.Max
	}
	w.sink.Write(p[:n])
	w.calls = append(w.calls, c19Sample{int64(n), d})
	var err error
	if st.Err || n < len(p) {
		err = errScript{k}
	}
	w.log = append(w.log, fmt.Sprintf("Write(%d)=%d,%v", len(p), n, err))
	return n, err
}

func (w *wCore) readFrom(r io.Reader) (int64, error) {
	var total int64
	var slept time.Duration
	defer func() { w.calls = append(w.calls, c19Sample{total, slept}) }()
	for {
		st, k := w.step()
		d := time.Duration(st.DelayUs) * time.Microsecond
		if d > 0 {
			time.Sleep(d)
			slept += d
		}
		n := 4096
		if st.Max > 0 {
			n = st.Max
		}
		buf := make([]byte, n)
		m, err := r.Read(buf)
		w.sink.Write(buf[:m])
		total += int64(m)
		if err == io.EOF {
			w.log = append(w.log, fmt.Sprintf("ReadFrom=%d,nil", total))
			return total, nil
		}
		if err != nil {
			w.log = append(w.log, fmt.Sprintf("ReadFrom=%d,%v", total, err))
			return total, err
		}
		if st.Err {
			w.log = append(w.log, fmt.Sprintf("ReadFrom=%d,scripted", total))
			return total, errScript{k}
		}
	}
}

func (w *wCore) close() error {
	w.closes++
	w.log = append(w.log, "Close")
	if w.closes > 1 {
		return errors.New("already closed")
	}
	return nil
}

type sWriter struct{ c *wCore }
type sWriteCloser struct{ c *wCore }
type sWriterRF struct{ c *wCore }
type sWriteCloserRF struct{ c *wCore }

func (s sWriter) Write(p []byte) (int, error)                { return s.c.write(p) }
func (s sWriteCloser) Write(p []byte) (int, error)           { return s.c.write(p) }
func (s sWriteCloser) Close() error                          { return s.c.close() }
func (s sWriterRF) Write(p []byte) (int, error)              { return s.c.write(p) }
func (s sWriterRF) ReadFrom(r io.Reader) (int64, error)      { return s.c.readFrom(r) }
func (s sWriteCloserRF) Write(p []byte) (int, error)         { return s.c.write(p) }
func (s sWriteCloserRF) Close() error                        { return s.c.close() }
func (s sWriteCloserRF) ReadFrom(r io.Reader) (int64, error) { return s.c.readFrom(r) }

func mkWriter(c *c19Case, core *wCore) io.Writer {
	switch {
	case c.Closer && c.Fast:
		return sWriteCloserRF{core}
	case c.Closer:
		return sWriteCloser{core}
	case c.Fast:
		return sWriterRF{core}
	}
	return sWriter{core}
}

// plainSink / plainSource have no fast paths, so io.Copy's choice depends on
// the value under test only.
type plainSink struct{ b bytes.Buffer }

func (s *plainSink) Write(p []byte) (int, error) { return s.b.Write(p) }

type plainSource struct {
	data []byte
	pos  int
}

func (s *plainSource) Read(p []byte) (int, error) {
	if s.pos >= len(s.data) {
		return 0, io.EOF
	}
	n := copy(p, s.data[s.pos:])
	s.pos += n
	return n, nil
}

// transfer is one consumer-level call and what it returned.
type c19Transfer struct {
	Desc string
	N    int64
}

func errStr(err error) string {
	if err == nil {
		return "nil"
	}
	return err.Error()
}

// consumeReader applies the generated calls to rc; returns the observation log,
// the transfers (bytes moved per proxy-level call) and everything received.
func consumeReader(c *c19Case, rc io.ReadCloser) (log []string, transfers []c19Transfer, got []byte) {
	for _, k := range c.Calls {
		switch k.Op {
		case "rw":
			p := make([]byte, k.Size)
			n, err := rc.Read(p)
			got = append(got, p[:max0(n)]...)
			log = append(log, fmt.Sprintf("Read(%d)=%d,%s", k.Size, n, errStr(err)))
			transfers = append(transfers, c19Transfer{"Read", int64(n)})
		case "copy":
			var s plainSink
			n, err := io.Copy(&s, rc)
			got = append(got, s.b.Bytes()...)
			log = append(log, fmt.Sprintf("Copy=%d,%s", n, errStr(err)))
			transfers = append(transfers, c19Transfer{"Copy", n})
		case "readall":
			b, err := io.ReadAll(rc)
			got = append(got, b...)
			log = append(log, fmt.Sprintf("ReadAll=%d,%s", len(b), errStr(err)))
			transfers = append(transfers, c19Transfer{"ReadAll", int64(len(b))})
		case "fast":
			if wt, ok := rc.(io.WriterTo); ok {
				var s plainSink
				n, err := wt.WriteTo(&s)
				got = append(got, s.b.Bytes()...)
				log = append(log, fmt.Sprintf("WriteTo=%d,%s", n, errStr(err)))
				transfers = append(transfers, c19Transfer{"WriteTo", n})
			}
		case "close":
			log = append(log, "Close="+errStr(rc.Close()))
		}
	}
	return
}

func consumeWriter(c *c19Case, wc io.WriteCloser, data []byte) (log []string, transfers []c19Transfer) {
	pos := 0
	for _, k := range c.Calls {
		switch k.Op {
		case "rw":
			end := pos + k.Size
			if end > len(data) {
				end = len(data)
			}
			n, err := wc.Write(data[pos:end])
			log = append(log, fmt.Sprintf("Write(%d)=%d,%s", end-pos, n, errStr(err)))
			transfers = append(transfers, c19Transfer{"Write", int64(n)})
			pos += max0(n)
		case "copy", "readall":
			src := &plainSource{data: data[pos:]}
			n, err := io.Copy(wc, src)
			log = append(log, fmt.Sprintf("Copy=%d,%s", n, errStr(err)))
			transfers = append(transfers, c19Transfer{"Copy", n})
			pos += src.pos
		case "fast":
			if rf, ok := wc.(io.ReaderFrom); ok {
				src := &plainSource{data: data[pos:]}
				n, err := rf.ReadFrom(src)
				log = append(log, fmt.Sprintf("ReadFrom=%d,%s", n, errStr(err)))
				transfers = append(transfers, c19Transfer{"ReadFrom", n})
				pos += src.pos
			}
		case "close":
			log = append(log, "Close="+errStr(wc.Close()))
		}
	}
	return
}

func max0(n int) int {
	if n < 0 {
		return 0
	}
	return n
}

type nopRC struct{ io.Reader }

func (nopRC) Close() error { return nil }

type nopRCWT struct{ io.Reader }

func (nopRCWT) Close() error                         { return nil }
func (n nopRCWT) WriteTo(w io.Writer) (int64, error) { return n.Reader.(io.WriterTo).WriteTo(w) }

type nopWC struct{ io.Writer }

func (nopWC) Close() error { return nil }

type nopWCRF struct{ io.Writer }

func (nopWCRF) Close() error                          { return nil }
func (n nopWCRF) ReadFrom(r io.Reader) (int64, error) { return n.Writer.(io.ReaderFrom).ReadFrom(r) }

// bareReadCloser: what "no proxy" means for the consumer (same method set).
func bareReadCloser(r io.Reader) io.ReadCloser {
	if rc, ok := r.(io.ReadCloser); ok {
		return rc
	}
	if _, ok := r.(io.WriterTo); ok {
		return nopRCWT{r}
	}
	return nopRC{r}
}

func bareWriteCloser(w io.Writer) io.WriteCloser {
	if wc, ok := w.(io.WriteCloser); ok {
		return wc
	}
	if _, ok := w.(io.ReaderFrom); ok {
		return nopWCRF{w}
	}
	return nopWC{w}
}

type c19EwmaRec struct {
	decor.WC
	mu      sync.Mutex
	samples []c19Sample
}

type c19Sample struct {
	N   int64
	Dur time.Duration
}

func (d *c19EwmaRec) Decor(decor.Statistics) (string, int) { return d.Format("") }
func (d *c19EwmaRec) EwmaUpdate(n int64, dur time.Duration) {
	d.mu.Lock()
	d.samples = append(d.samples, c19Sample{n, dur})
	d.mu.Unlock()
}

func runC19(ci interface{}) (r Result) {
	c := ci.(*c19Case)
	done := make(chan struct{})
	go func() {
		defer close(done)
		defer func() {
			if p := recover(); p != nil {
				r.Err, r.Kind = fmt.Errorf("panic: %v", p), "panic"
			}
		}()
		c19Exec(c, &r)
	}()
	select {
	case <-done:
	case <-time.After(30 * time.Second):
		return Result{Err: fmt.Errorf("a proxy transfer did not return within 30 s"), Kind: "hang", Fatal: true}
	}
	return r
}

func c19Exec(c *c19Case, r *Result) {
	data := c19Data(c)
	r.Classes = append(r.Classes, "dir:"+c.Dir)
	if c.Fast {
		r.Classes = append(r.Classes, "fast-path-type")
	}
	if c.Closer {
		r.Classes = append(r.Classes, "closer")
	}
	opts := []mpb.ContainerOption{mpb.WithOutput(io.Discard)}
	if c.Refresh == "auto" {
		opts = append(opts, mpb.WithAutoRefresh(), mpb.WithRefreshRate(time.Hour))
	}
	p := mpb.New(opts...)
	defer p.Shutdown()
	var recs []*c19EwmaRec
	var ds []decor.Decorator
	for i := 0; i < c.Ewma; i++ {
		wc0 := decor.WC{}
		rec := &c19EwmaRec{WC: wc0.Init()}
		recs = append(recs, rec)
		var d decor.Decorator = rec
		for j := 0; j < c.Depth; j++ {
			switch (i + j + c.Seed) % 7 {
			case 0:
				d = decor.OnComplete(d, "done")
			case 1:
				d = decor.Meta(d, func(s string) string { return s })
			case 2:
				d = decor.OnAbortMeta(d, func(s string) string { return s })
			case 3:
				d = decor.OnCompleteOrOnAbort(d, "fin")
			case 4:
				d = decor.OnCompleteMetaOrOnAbortMeta(d, func(s string) string { return s })
			case 5:
				d = decor.OnAbort(d, "abrt")
			default:
				d = decor.OnCompleteMeta(d, func(s string) string { return s })
			}
		}
		ds = append(ds, d)
	}
	for i := 0; i < c.Plain; i++ {
		ds = append(ds, decor.Name("x"))
	}
	b := p.AddBar(c.Total, mpb.AppendDecorators(ds...))
	if c.Ewma > 0 {
		r.Classes = append(r.Classes, "ewma")
	}

	var logP, logB, ulogP, ulogB []string
	var transfers []c19Transfer
	var ucalls []c19Sample
	var closesP, closesB int
	var fastOffered bool
	if c.Dir == "read" {
		coreP := &rCore{data: data, script: c.Script}
		coreB := &rCore{data: data, script: c.Script}
		under := mkReader(c, coreP)
		pr := b.ProxyReader(under)
		if pr == nil {
			r.Err, r.Kind = fmt.Errorf("ProxyReader returned nil for a running bar"), "nil"
			return
		}
		_, fastOffered = pr.(io.WriterTo)
		var gotP, gotB []byte
		logP, transfers, gotP = consumeReader(c, pr)
		logB, _, gotB = consumeReader(c, bareReadCloser(mkReader(c, coreB)))
		if !bytes.Equal(gotP, gotB) {
			r.Err, r.Kind = fmt.Errorf("bytes received through the proxy differ from the bare reader (%d vs %d bytes)", len(gotP), len(gotB)), "data"
			return
		}
		if !bytes.Equal(gotP, data[:len(gotP)]) {
			r.Err, r.Kind = fmt.Errorf("bytes received through the proxy are not a prefix of the stream"), "data"
			return
		}
		ulogP, ulogB, closesP, closesB, ucalls = coreP.log, coreB.log, coreP.closes, coreB.closes, coreP.calls
	} else {
		coreP := &wCore{script: c.Script}
		coreB := &wCore{script: c.Script}
		under := mkWriter(c, coreP)
		pw := b.ProxyWriter(under)
		if pw == nil {
			r.Err, r.Kind = fmt.Errorf("ProxyWriter returned nil for a running bar"), "nil"
			return
		}
		_, fastOffered = pw.(io.ReaderFrom)
		logP, transfers = consumeWriter(c, pw, data)
		logB, _ = consumeWriter(c, bareWriteCloser(mkWriter(c, coreB)), data)
		if !bytes.Equal(coreP.sink.Bytes(), coreB.sink.Bytes()) {
			r.Err, r.Kind = fmt.Errorf("bytes written through the proxy differ from the bare writer (%d vs %d bytes)", coreP.sink.Len(), coreB.sink.Len()), "data"
			return
		}
		ulogP, ulogB, closesP, closesB, ucalls = coreP.log, coreB.log, coreP.closes, coreB.closes, coreP.calls
	}
	if fastOffered != c.Fast {
		r.Err, r.Kind = fmt.Errorf("proxy offers the fast path: %v, wrapped value has it: %v", fastOffered, c.Fast), "fastpath"
		return
	}
	if fmt.Sprint(logP) != fmt.Sprint(logB) {
		r.Err, r.Kind = fmt.Errorf("caller sees through the proxy %v, bare %v", logP, logB), "results"
		return
	}
	if fmt.Sprint(ulogP) != fmt.Sprint(ulogB) {
		r.Err, r.Kind = fmt.Errorf("underlying value sees through the proxy %v, bare %v", ulogP, ulogB), "calls"
		return
	}
	if closesP != closesB {
		r.Err, r.Kind = fmt.Errorf("Close forwarded %d times, called %d times", closesP, closesB), "close"
		return
	}
	// accounting
	var sum, usum int64
	for _, tr := range transfers {
		sum += tr.N
	}
	capIdx := -1 // underlying call that completed the bar
	for i, uc := range ucalls {
		usum += uc.N
		if c.Total > 0 && usum >= c.Total && capIdx < 0 {
			capIdx = i
		}
	}
	if usum != sum {
		r.Err, r.Kind = fmt.Errorf("caller was told %d bytes moved, the underlying value moved %d", sum, usum), "results"
		return
	}
	want := sum
	if c.Total > 0 && sum >= c.Total {
		want = c.Total
	}
	cur := b.Current()
	if cur != want {
		r.Err, r.Kind = fmt.Errorf("bar shows %d after transfers %v (sum %d, total %d): want %d", cur, transfers, sum, c.Total, want), "accounting"
		return
	}
	if comp := b.Completed(); comp != (c.Total > 0 && sum >= c.Total) {
		r.Err, r.Kind = fmt.Errorf("bar completed=%v after %d of %d bytes", comp, sum, c.Total), "accounting"
		return
	}
	if capIdx >= 0 {
		r.Classes = append(r.Classes, "capped")
	}
	// moving-average samples: one per underlying transfer, in order, carrying its
	// byte count and at least the time it slept; once the bar has completed later
	// samples may be dropped (any subsequence)
	for di, rec := range recs {
		rec.mu.Lock()
		got := append([]c19Sample(nil), rec.samples...)
		rec.mu.Unlock()
		must := len(ucalls)
		if capIdx >= 0 {
			must = capIdx + 1
		}
		if len(got) < must {
			r.Err, r.Kind = fmt.Errorf("moving-average decorator %d received %d samples %v for %d transfers %v", di, len(got), got, must, ucalls), "ewma"
			return
		}
		gi := 0
		for ti, uc := range ucalls {
			if ti < must {
				if got[gi].N != uc.N {
					r.Err, r.Kind = fmt.Errorf("moving-average decorator %d: sample %d carries %d bytes, the transfer moved %d (samples %v, transfers %v)", di, gi, got[gi].N, uc.N, got, ucalls), "ewma"
					return
				}
				if got[gi].Dur < uc.Dur {
					r.Err, r.Kind = fmt.Errorf("moving-average decorator %d: sample %d reports %v, the underlying call took at least %v", di, gi, got[gi].Dur, uc.Dur), "ewma-time"
					return
				}
				gi++
			} else if gi < len(got) && got[gi].N == uc.N && got[gi].Dur >= uc.Dur {
				gi++
			}
		}
		if gi != len(got) {
			r.Err, r.Kind = fmt.Errorf("moving-average decorator %d received samples %v that match no transfer of %v", di, got[gi:], ucalls), "ewma"
			return
		}
		if di == 0 && len(ucalls) > 0 {
			r.Classes = append(r.Classes, "ewma-samples-checked")
		}
	}
	sizes := map[int64]bool{}
	for _, tr := range transfers {
		sizes[tr.N] = true
	}
	hasErr := false
	for _, s := range c.Script {
		if s.Err || s.EOFData || s.Max == 0 {
			hasErr = true
		}
	}
	r.Nontrivial = len(transfers) >= 3 && len(sizes) >= 2 && (hasErr || c.Fast)
	return
}
