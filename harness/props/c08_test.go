package props

import (
	"bytes"
	"fmt"
	"io"
	"math/big"
	"strings"

	mpb "github.com/vbauerster/mpb/v8"
	"github.com/vbauerster/mpb/v8/decor"
	"pgregory.net/rapid"
)

// C08 — the filled part of a bar is proportional to progress and monotone.

// multi-rune grapheme clusters that occupy two columns: thumbs-up + skin tone,
// and a keycap-free flag pair would be ambiguous in width tables, so a second
// emoji + modifier is used
const c08ClusterFill = "\U0001F44D\U0001F3FD"
const c08ClusterRefill = "\U0001F44B\U0001F3FB"

type c08Case struct {
	Total     int64 `json:"total"`
	Current   int64 `json:"current"`
	Current2  int64 `json:"current2"` // second point for the monotonicity relation
	Refill    int64 `json:"refill"`
	Width     int   `json:"width"`     // available width handed to Fill
	Requested int   `json:"requested"` // requested width (0 = none)
	Wide      bool  `json:"wide"`      // 2-column filler/refiller runes
	Cluster   bool  `json:"cluster"`   // with Wide: each is a multi-rune grapheme cluster (emoji + modifier), still 2 columns
	Rev       bool  `json:"rev"`
	Completed bool  `json:"completed"` // Statistics.Completed flag (only generated true when current>=total>0)
	TipOnC    bool  `json:"tip_on_complete"`
	// animated tip: 0 = the single frame ">"; 1 = ">", ">>>"; 2 = ">>", ">", ">>>". TipAdvance Fill calls
	// are made (and discarded) before the judged one, so that it draws a later frame.
	// PrevTotal != 0: the same filler instance has drawn one frame before, with this total and otherwise
	// identical statistics (a bar whose total changed between two frames)
	PrevTotal  int64 `json:"prev_total,omitempty"`
	TipFrames  int   `json:"tip_frames,omitempty"`
	TipAdvance int   `json:"tip_advance,omitempty"`
}

func init() {
	register(&Prop{ID: "C08", Gen: genC08, New: func() interface{} { return new(c08Case) }, Run: runC08})
}

func genC08(t *rapid.T) interface{} {
	c := &c08Case{}
	c.Width = rapid.OneOf(rapid.IntRange(0, 12), rapid.IntRange(0, 250), rapid.SampledFrom([]int{80, 82, 100, 102, 250})).Draw(t, "width")
	if rapid.IntRange(0, 4).Draw(t, "req?") == 0 {
		c.Requested = rapid.IntRange(-1, 300).Draw(t, "req")
	}
	inner := c08Inner(c)
	mode := rapid.IntRange(0, 9).Draw(t, "mode")
	switch {
	case mode <= 2: // ratio-targeted: current near a rounding boundary k/inner
		c.Total = genNonNegInt64(t, "total")
		if c.Total > 0 && inner > 0 {
			k := rapid.IntRange(0, 2*inner).Draw(t, "k")
			// current ≈ total*k/(2*inner)  (boundaries of rounding are the odd k)
			v := new(big.Int).Mul(big.NewInt(c.Total), big.NewInt(int64(k)))
			v.Div(v, big.NewInt(int64(2*inner)))
			cur := v.Int64() + rapid.Int64Range(-1, 1).Draw(t, "dk")
			if cur < 0 {
				cur = 0
			}
			c.Current = cur
		}
	case mode == 3: // overflow-targeted: inner*current beyond 2^64
		c.Total = rapid.Int64Range(1<<56, 1<<63-1).Draw(t, "btotal")
		c.Current = rapid.Int64Range(0, c.Total).Draw(t, "bcur")
	case mode == 4: // any sign
		c.Total = genInt64(t, "total")
		c.Current = genInt64(t, "current")
	default:
		c.Total = genNonNegInt64(t, "total")
		if c.Total > 0 && rapid.Bool().Draw(t, "within") {
			c.Current = rapid.Int64Range(0, c.Total).Draw(t, "cur")
		} else {
			c.Current = genNonNegInt64(t, "current")
		}
	}
	// second point for monotonicity: current2 >= current
	if c.Current >= 0 {
		switch rapid.IntRange(0, 2).Draw(t, "m2") {
		case 0:
			d := rapid.Int64Range(0, 1000).Draw(t, "d2")
			if c.Current <= 1<<63-1-d {
				c.Current2 = c.Current + d
			} else {
				c.Current2 = c.Current
			}
		case 1:
			c.Current2 = rapid.Int64Range(c.Current, 1<<63-1).Draw(t, "c2")
		default:
			if c.Total > c.Current {
				c.Current2 = rapid.Int64Range(c.Current, c.Total).Draw(t, "c2t")
			} else {
				c.Current2 = c.Current
			}
		}
	} else {
		c.Current2 = c.Current
	}
	if rapid.IntRange(0, 2).Draw(t, "refill?") == 0 && c.Current > 0 {
		c.Refill = rapid.Int64Range(0, c.Current).Draw(t, "refill")
	}
	c.Wide = rapid.IntRange(0, 3).Draw(t, "wide") == 0
	c.Cluster = c.Wide && rapid.IntRange(0, 2).Draw(t, "cluster") == 0
	c.Rev = rapid.IntRange(0, 3).Draw(t, "rev") == 0
	if c.Total > 0 && c.Current >= c.Total {
		c.Completed = rapid.Bool().Draw(t, "completed")
	}
	if c.Total <= 0 && c.Current == c.Total && rapid.Bool().Draw(t, "completedempty") {
		// a bar with nothing to do, completed through SetTotal(-1, true) / SetTotal(0, true)
		c.Completed = true
	}
	c.TipOnC = rapid.IntRange(0, 3).Draw(t, "tipc") == 0
	if rapid.IntRange(0, 4).Draw(t, "prevtotal?") == 0 {
		c.PrevTotal = rapid.OneOf(rapid.Int64Range(1, 1000), rapid.Just(c.Current), rapid.Just(c.Current2)).Draw(t, "prevtotal")
	}
	if rapid.IntRange(0, 3).Draw(t, "animatedtip") == 0 {
		c.TipFrames = rapid.IntRange(1, 2).Draw(t, "tipframes")
		c.TipAdvance = rapid.IntRange(0, 3).Draw(t, "tipadvance")
	}
	return c
}

func c08Eff(c *c08Case) int {
	w := c.Width
	if c.Requested >= 1 && c.Requested <= c.Width {
		w = c.Requested
	}
	return w
}

func c08Inner(c *c08Case) int { return c08Eff(c) - 2 }

type c08Cells struct {
	filler, tip, refill, padding, other int
	raw                                 string
}

func c08Fill(c *c08Case, current int64, completed bool) (c08Cells, error) {
	st := mpb.BarStyle().Lbound("[").Rbound("]").Tip(">").Padding("-")
	switch c.TipFrames {
	case 1:
		st = st.Tip(">", ">>>")
	case 2:
		st = st.Tip(">>", ">", ">>>")
	}
	if c.Wide && c.Cluster {
		st = st.Filler(c08ClusterFill).Refiller(c08ClusterRefill)
	} else if c.Wide {
		st = st.Filler("世").Refiller("界")
	} else {
		st = st.Filler("=").Refiller("+")
	}
	if c.Rev {
		st = st.Reverse()
	}
	if c.TipOnC {
		st = st.TipOnComplete()
	}
	f := st.Build()
	var buf bytes.Buffer
	refill := c.Refill
	if refill > current {
		refill = current
	}
	if refill < 0 {
		refill = 0
	}
	var err error
	// a fill that never returns (or eats the heap) is reported, not waited for
	_ = guardTermination("C08", c, func() {
		if c.PrevTotal != 0 && c.PrevTotal != c.Total {
			_ = f.Fill(io.Discard, decor.Statistics{AvailableWidth: c.Width, RequestedWidth: c.Requested,
				Total: c.PrevTotal, Current: current, Refill: refill, Completed: completed})
		}
		for k := 0; k < c.TipAdvance && c.TipFrames > 0; k++ {
			_ = f.Fill(io.Discard, decor.Statistics{AvailableWidth: c.Width, RequestedWidth: c.Requested,
				Total: c.Total, Current: current, Refill: refill, Completed: completed})
		}
		err = f.Fill(&buf, decor.Statistics{AvailableWidth: c.Width, RequestedWidth: c.Requested,
			Total: c.Total, Current: current, Refill: refill, Completed: completed})
	})
	var cells c08Cells
	cells.raw = buf.String()
	if err != nil {
		return cells, err
	}
	s := cells.raw
	if len(s) >= 2 && s[0] == '[' && s[len(s)-1] == ']' {
		s = s[1 : len(s)-1]
	} else if s != "" {
		return cells, fmt.Errorf("row %q lacks brackets", cells.raw)
	}
	// grapheme clusters of the cluster style count as one 2-column cell pair
	s = strings.ReplaceAll(s, c08ClusterFill, "世")
	s = strings.ReplaceAll(s, c08ClusterRefill, "界")
	for _, r := range s {
		switch r {
		case '=':
			cells.filler++
		case '世':
			cells.filler += 2
		case '+':
			cells.refill++
		case '界':
			cells.refill += 2
		case '>':
			cells.tip++
		case '-':
			cells.padding++
		default:
			cells.other++ // "…" stuffing when a wide rune does not fit
		}
	}
	return cells, nil
}

// roundHalfAway(num/den) for den>0, num>=0
func roundHalfAway(num, den *big.Int) *big.Int {
	two := big.NewInt(2)
	n2 := new(big.Int).Mul(num, two)
	n2.Add(n2, den)
	d2 := new(big.Int).Mul(den, two)
	return n2.Div(n2, d2)
}

// expectedCells returns the admissible [lo,hi] for round(inner*cur/total),
// widening by one cell only when the exact value lies within 1e-9 of a half
// (the library rounds a float64 quotient).
func expectedCells(inner int, cur, total int64) (lo, hi int) {
	if total <= 0 || cur <= 0 || inner <= 0 {
		return 0, 0
	}
	if cur >= total {
		return inner, inner
	}
	num := new(big.Int).Mul(big.NewInt(int64(inner)), big.NewInt(cur))
	den := big.NewInt(total)
	// scale by 1e9 for the epsilon window
	scale := big.NewInt(1000000000)
	numS := new(big.Int).Mul(num, scale)
	denS := new(big.Int).Mul(den, scale)
	nlo := new(big.Int).Sub(numS, den) // (x - 1e-9) * den * 1e9
	if nlo.Sign() < 0 {
		nlo.SetInt64(0)
	}
	nhi := new(big.Int).Add(numS, den)
	l := roundHalfAway(nlo, denS).Int64()
	h := roundHalfAway(nhi, denS).Int64()
	if h > int64(inner) {
		h = int64(inner)
	}
	return int(l), int(h)
}

// c08WholeTip: the judged Fill drew a tip frame wider than the proportional part
// (set by c08Check; the monotonicity relation is not applied then: which frame of
// an animated tip is drawn depends on how many frames with a non-empty filled
// part came before).
var c08WholeTip bool

func c08Check(c *c08Case, current int64, completed bool) (filled int, err error) {
	c08WholeTip = false
	inner := c08Inner(c)
	cells, ferr := c08Fill(c, current, completed)
	if ferr != nil {
		return 0, fmt.Errorf("Fill error: %v", ferr)
	}
	if inner < 0 {
		if cells.raw != "" {
			return 0, fmt.Errorf("width %d too small for brackets but got %q", c.Width, cells.raw)
		}
		return 0, nil
	}
	filled = cells.filler + cells.tip + cells.refill
	if tot := filled + cells.padding + cells.other; tot != inner {
		return filled, fmt.Errorf("inner cells %d != inner width %d (row %q)", tot, inner, cells.raw)
	}
	lo, hi := expectedCells(inner, current, c.Total)
	slack := 0
	if c.Wide {
		slack = 1 // within one rune: a 2-column rune that does not fit leaves one cell
	}
	if cells.tip > hi {
		c08WholeTip = true
		// a tip frame is one indivisible component: where the proportional part is
		// narrower than the frame, the frame is drawn whole ("to within one rune for
		// multi-column runes" read as: to within one component)
		hi = cells.tip
	}
	if filled < lo-slack || filled > hi {
		return filled, fmt.Errorf("filled cells=%d, want round(%d*%d/%d) in [%d,%d] (slack %d below); row %q",
			filled, inner, current, c.Total, lo, hi, slack, cells.raw)
	}
	if cells.refill > filled {
		return filled, fmt.Errorf("refill cells %d exceed filled %d", cells.refill, filled)
	}
	// refill segment: proportional to min(refill,current)
	refill := c.Refill
	if refill > current {
		refill = current
	}
	if refill > 0 {
		rlo, rhi := expectedCells(inner, refill, c.Total)
		if cells.refill > rhi+slack || cells.refill < rlo-cells.tip-slack-1 {
			return filled, fmt.Errorf("refill cells=%d, want about round(%d*%d/%d) in [%d,%d]; row %q",
				cells.refill, inner, refill, c.Total, rlo, rhi, cells.raw)
		}
	} else if cells.refill != 0 {
		return filled, fmt.Errorf("refill cells %d without refill", cells.refill)
	}
	return filled, nil
}

func runC08(ci interface{}) Result {
	c := ci.(*c08Case)
	var r Result
	inner := c08Inner(c)
	r.Nontrivial = c.Current > 0 && c.Current < c.Total && inner >= 2
	if inner > 0 && c.Current > 0 {
		p := new(big.Int).Mul(big.NewInt(int64(inner)), big.NewInt(c.Current))
		if p.BitLen() > 64 {
			r.Classes = append(r.Classes, "product>=2^64")
		}
	}
	if c.Wide {
		r.Classes = append(r.Classes, "wide")
	}
	if c.Cluster {
		r.Classes = append(r.Classes, "cluster")
	}
	if c.Refill > 0 {
		r.Classes = append(r.Classes, "refill")
	}
	if c.PrevTotal != 0 && c.PrevTotal != c.Total {
		r.Classes = append(r.Classes, "total-changed-between-frames")
	}
	if c.TipFrames > 0 && c.TipAdvance > 0 {
		r.Classes = append(r.Classes, "animated-tip")
	}
	if c.Total <= 0 {
		r.Classes = append(r.Classes, "total<=0")
	}
	if c.Current >= c.Total && c.Total > 0 {
		r.Classes = append(r.Classes, "current>=total")
	}
	f1, err := c08Check(c, c.Current, c.Completed)
	if err != nil {
		r.Err, r.Kind = err, "proportion"
		return r
	}
	whole1 := c08WholeTip
	if c.Current2 != c.Current {
		comp2 := c.Completed && c.Current2 >= c.Total
		f2, err := c08Check(c, c.Current2, comp2)
		if err != nil {
			r.Err, r.Kind = fmt.Errorf("at current2=%d: %v", c.Current2, err), "proportion"
			return r
		}
		// (animated tips: the two calls may be at different frames of the animation,
		// whose widths differ; the relation is about one and the same tip)
		if c.Current <= c.Current2 && f2 < f1 && inner >= 0 && !whole1 && !c08WholeTip && c.TipFrames == 0 {
			r.Err, r.Kind = fmt.Errorf("not monotone: current %d -> %d cells, current %d -> %d cells", c.Current, f1, c.Current2, f2), "monotone"
			return r
		}
		r.Classes = append(r.Classes, "pair")
	}
	return r
}
