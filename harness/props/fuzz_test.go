package props

import (
	"testing"

	"pgregory.net/rapid"
	"verif/harness/vstat"
)

// Native (coverage-guided) fuzz targets for the pure-function properties: the
// fuzzer's bytes drive rapid's generators (rapid.MakeFuzz), so the structured
// generator, the oracle and the JSON failure file are the same as in the
// property runs. Used by the thorough tier only (native fuzzing cannot be
// seeded; a crasher's JSON case is the reproducible unit).

func fuzzProp(f *testing.F, id string) {
	p := registry[id]
	vstat.Begin(id)
	f.Fuzz(rapid.MakeFuzz(func(t *rapid.T) {
		c := p.Gen(t)
		runOne(t, p, c)
	}))
}

func FuzzC07(f *testing.F) { fuzzProp(f, "C07") }
func FuzzC08(f *testing.F) { fuzzProp(f, "C08") }
func FuzzC09(f *testing.F) { fuzzProp(f, "C09") }
func FuzzC19(f *testing.F) { fuzzProp(f, "C19") }
func FuzzC20(f *testing.F) { fuzzProp(f, "C20") }
