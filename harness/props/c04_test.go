package props

import (
	"fmt"
	"regexp"
	"strings"

	"github.com/acarl005/stripansi"
	"github.com/mattn/go-runewidth"
	"pgregory.net/rapid"
	"verif/harness/engine"
	"verif/harness/vstat"
)

// C04 — frames redraw in place. The output is interpreted by a VT100-subset
// emulator (engine.VT): a bounded grid of the pty's size for terminal outputs,
// an unbounded document for byte-buffer outputs. After every frame the emulator
// must hold exactly: the lines meant to persist (text written through the
// container, rows of popped bars; once each, in order) followed by the rows of
// this frame; nothing may autowrap, no bar row may enter the scrollback, the
// cursor rests in column 0 below the last row. Which rows persist and how many
// rows a frame has comes from the reference frame model (clocked scenarios).

var c04TagFill = regexp.MustCompile(`\{\d+\}`)

func init() {
	register(&Prop{ID: "C04", Gen: genC04, New: func() interface{} { return new(engine.Scenario) }, Run: runC04, Journal: true})
}

var profC04 = Profile{
	MaxBars: 7, MinBars: 1, MaxSteps: 40, Refresh: []string{"manual", "manual", "manual", "manual", "manual", "none"}, QLens: []int{-1},
	Pop: 35, Queue: 15, LateSuccW: 2, Prio: true, PrioOnFinished: true, Ext: 30, Text: 3, Rm: 30, NoPop: 20, AbortW: 2, TicksW: 10,
	Pty: 55, PtyRowsMax: 8, Delay: 15, Fillers: []string{"bar", "bartip", "spinner", "spinnerv"}, LateAdd: true, Cancel: 5, PrioMidRender: 10, PlainDecors: 1,
}

func genC04(t *rapid.T) interface{} {
	excludedKnown = 0
	sc := genScenario(t, &profC04)
	if sc.Cfg.Refresh == "none" {
		sc.Cfg.PtyRows, sc.Cfg.PtyCols = 0, 0 // the claim is about non-terminal outputs
	}
	if sc.Cfg.Refresh == "manual" && pct(t, 10, "delayedshutdown") {
		// a refreshing container that is shut down while its render delay is
		// still pending: nothing at all may reach the output
		sc.Cfg.Refresh = "autoinj"
		sc.Cfg.Delay = true
		sc.Cfg.PtyRows, sc.Cfg.PtyCols = 0, 0
		var steps []engine.Step
		for _, st := range sc.Steps {
			if st.Op != "release" && st.Op != "cancel" && st.Op != "shutdown" {
				steps = append(steps, st)
			}
		}
		sc.Steps = append(steps, engine.Step{Op: rapid.SampledFrom([]string{"cancel", "shutdown"}).Draw(t, "delayedhow")})
		for i := range sc.Bars {
			sc.Bars[i].QueueAfter = -1
		}
	}
	if sc.Cfg.Refresh == "manual" {
		excludedKnown += int64(repairQueue(sc))
	}
	vstat.Excluded(excludedKnown)
	return sc
}

func wrapLine(s string, cols int) []string {
	if cols <= 0 || runewidth.StringWidth(s) <= cols {
		return []string{s}
	}
	var out []string
	cur, w := "", 0
	for _, r := range s {
		rw := runewidth.RuneWidth(r)
		if w+rw > cols {
			out = append(out, cur)
			cur, w = "", 0
		}
		cur += string(r)
		w += rw
	}
	return append(out, cur)
}

func rtrim(ls []string) []string {
	out := make([]string, len(ls))
	for i, l := range ls {
		out[i] = strings.TrimRight(l, " ")
	}
	for len(out) > 0 && out[len(out)-1] == "" {
		out = out[:len(out)-1]
	}
	return out
}

func runC04(ci interface{}) Result {
	sc := ci.(*engine.Scenario)
	var r Result
	tr := engine.Run(sc, engine.Options{})
	if tr.Inconclusive != "" {
		r.Inconclusive = true
		return r
	}
	if tr.Hang != nil {
		vstat.Class("hang-left-to-C01", 1)
		dumpHang(sc, tr)
		return r
	}
	r.Classes = append(append(r.Classes, "refresh:"+sc.Cfg.Refresh), featureClasses(sc)...)
	if sc.Cfg.Refresh == "none" {
		// not a terminal, no refresh requested: no bar rows, no cursor controls
		for k, c := range tr.Chunks {
			if strings.Contains(string(c.Data), "\x1b") || strings.Contains(string(c.Data), "|") {
				r.Err, r.Kind = fmt.Errorf("non-terminal output without refresh received chunk %d: %q", k, c.Data), "unrequested-output"
				return r
			}
		}
		r.Nontrivial = len(sc.Steps) > 3
		return r
	}
	if sc.Cfg.Refresh == "autoinj" {
		// shut down with the render delay still pending
		r.Classes = append(r.Classes, "shutdown-while-delayed")
		if len(tr.Chunks) > 0 {
			r.Err, r.Kind = fmt.Errorf("the render delay never ended but %d chunk(s) were written, first %q", len(tr.Chunks), tr.Chunks[0].Data), "early-output"
			return r
		}
		r.Nontrivial = tr.Cycles > 0
		return r
	}
	frames := tr.Frames()
	// nothing before the render delay ends
	if sc.Cfg.Delay && sc.Cfg.PtyRows == 0 {
		var rel int64 = -1
		for _, e := range tr.Events {
			if e.Point == "client.release" {
				rel = e.Seq
			}
		}
		// the epilogue releases the delay too (after the last step)
		for k, c := range tr.Chunks {
			if rel < 0 && len(tr.StepSeq) > 0 && c.Seq < tr.StepSeq[len(tr.StepSeq)-1] || rel >= 0 && c.Seq < rel {
				r.Err, r.Kind = fmt.Errorf("chunk %d was written before the render delay ended: %q", k, c.Data), "early-output"
				return r
			}
		}
		r.Classes = append(r.Classes, "delay")
	}
	// model-free part: whatever the frame model says, the row of a bar that is
	// still running (or any bar row outside pop mode) must never be scrolled off,
	// and nothing may wrap or confuse the terminal
	if sc.Cfg.PtyRows > 0 {
		pre := engine.NewVT(sc.Cfg.PtyRows, sc.Cfg.PtyCols)
		for k := range frames {
			pre.Feed(frames[k].Raw)
			if len(pre.Errors) > 0 {
				r.Err, r.Kind = fmt.Errorf("frame %d: terminal reports %v (chunk %q)", k, pre.Errors, frames[k].Raw), "terminal-error"
				return r
			}
			for _, ln := range pre.Scrollback {
				row := engine.ParseFrame(0, 0, []byte(ln+"\n"))
				if len(row.Lines) != 1 {
					continue
				}
				l := row.Lines[0]
				if (l.Kind == "bar" && (l.Flag == "r" || !sc.Cfg.Pop)) || (l.Kind == "ext" && !sc.Cfg.Pop) {
					r.Err, r.Kind = fmt.Errorf("after frame %d (%d lines on a %d-row terminal) the row %q has been scrolled off the screen", k, len(frames[k].Lines), sc.Cfg.PtyRows, ln), "scrolled"
					return r
				}
			}
		}
	}
	sim := engine.Simulate(sc)
	if !sim.OK {
		vstat.Class("model-not-applicable", 1)
		return r
	}
	if len(sim.Frames) != len(frames) {
		r.Inconclusive = true // frame count / membership is C05's business
		vstat.Note(fmt.Sprintf("frame count differs from the model (%d vs %d)", len(frames), len(sim.Frames)))
		return r
	}
	rows, cols := 0, 0
	if sc.Cfg.PtyRows > 0 {
		rows, cols = sc.Cfg.PtyRows, sc.Cfg.PtyCols
		r.Classes = append(r.Classes, "pty")
	}
	vt := engine.NewVT(rows, cols)
	var persisted []string
	rowCounts := map[int]bool{}
	fullHeight, textBetween := false, false
	for k := range frames {
		f, mf := &frames[k], &sim.Frames[k]
		vt.Feed(f.Raw)
		if len(vt.Errors) > 0 {
			r.Err, r.Kind = fmt.Errorf("frame %d: terminal reports %v (chunk %q)", k, vt.Errors, f.Raw), "terminal-error"
			return r
		}
		if f.Partial {
			r.Err, r.Kind = fmt.Errorf("frame %d does not end with a newline: %q", k, f.Raw), "partial"
			return r
		}
		var textLines []string
		for _, t := range mf.Text {
			for _, ln := range strings.Split(strings.TrimSuffix(t, "\n"), "\n") {
				textLines = append(textLines, wrapLine(ln, cols)...)
			}
		}
		// chunk lines after the text lines are the bar rows of this frame
		nText := 0
		for _, t := range mf.Text {
			nText += strings.Count(t, "\n")
		}
		if nText > len(f.Lines) {
			r.Inconclusive = true
			return r
		}
		var barRows []string
		for _, ln := range f.Lines[nText:] {
			barRows = append(barRows, stripansi.Strip(ln.Raw))
		}
		wantRows := 0
		for _, n := range mf.Rows {
			wantRows += n
		}
		if len(barRows) != wantRows {
			r.Inconclusive = true // row count is the frame model's (C05/C18) business
			vstat.Note(fmt.Sprintf("frame %d has %d rows, model %d", k, len(barRows), wantRows))
			return r
		}
		// (rows of bars popped out in this frame are lines meant to persist, like
		// text: they are not cut, and a frame taller than the height may consist
		// of nothing else)
		persistRows := 0
		for _, b := range mf.Persist {
			persistRows += mf.Rows[b]
		}
		if len(barRows) > mf.Height && len(barRows) > persistRows {
			r.Err, r.Kind = fmt.Errorf("frame %d has %d rows (%d of them of bars popped out in it), the height is %d", k, len(barRows), persistRows, mf.Height), "too-tall"
			return r
		}
		if wlim := cols; wlim > 0 || sc.Cfg.PtyRows == 0 {
			if wlim == 0 {
				// not a terminal: the requested width, 80 when none was requested
				if wlim = sc.Cfg.Width; wlim <= 0 {
					wlim = 80
				}
			}
			cols := wlim
			for _, br := range barRows {
				if c04TagFill.MatchString(br) {
					continue // (the harness's own "tag" filler ignores the width it is given)
				}
				if w := runewidth.StringWidth(br); w > cols {
					r.Err, r.Kind = fmt.Errorf("frame %d: row %q is %d columns wide, the terminal has %d", k, br, w, cols), "too-wide"
					return r
				}
			}
		}
		doc := append(append(append([]string(nil), persisted...), textLines...), barRows...)
		got := vt.Lines()
		if fmt.Sprint(rtrim(doc)) != fmt.Sprint(rtrim(got)) {
			r.Err, r.Kind = fmt.Errorf("after frame %d the terminal shows %q, it should show the persisted lines followed by this frame: %q (chunk %q)", k, rtrim(got), rtrim(doc), f.Raw), "screen"
			return r
		}
		popRows := 0
		for _, b := range mf.Persist {
			popRows += mf.Rows[b]
		}
		keep := len(persisted) + len(textLines) + popRows
		if len(vt.Scrollback) > keep {
			r.Err, r.Kind = fmt.Errorf("after frame %d (%d rows on a %d-row terminal) %d lines are in the scrollback but only %d lines persist: bar row %q was scrolled off", k, len(barRows), rows, len(vt.Scrollback), keep, vt.Scrollback[len(vt.Scrollback)-1]), "scrolled"
			return r
		}
		persisted = append(append(persisted, textLines...), barRows[:popRows]...)
		rowCounts[len(barRows)] = true
		if rows > 0 && len(barRows) >= rows-1 {
			fullHeight = true
		}
		if len(textLines) > 0 && k > 0 {
			textBetween = true
		}
	}
	if fullHeight {
		r.Classes = append(r.Classes, "frame-near-height")
	}
	if textBetween {
		r.Classes = append(r.Classes, "text-between-frames")
	}
	if len(sim.PopOrder) > 0 {
		r.Classes = append(r.Classes, "popped")
	}
	r.Nontrivial = len(frames) >= 3 && (len(rowCounts) >= 2 || fullHeight || textBetween)
	return r
}
