package props

import (
	"fmt"
	"io"
	"math"
	"sync"
	"sync/atomic"
	"time"

	mpb "github.com/vbauerster/mpb/v8"
	"github.com/vbauerster/mpb/v8/decor"
	"pgregory.net/rapid"
	"verif/harness/engine"
)

// C09 — bar counters and completion follow the documented sequential rules.
//
// One real bar, one client goroutine; the operation sequence is generated
// against the reference model (engine.MBar) so that mutators stop at the first
// terminal state (the property's premise); after every step the three getters
// are compared with the model, in a refresh cycle the Statistics the library
// hands to decorators are compared too (this is where the refill mark becomes
// observable), and once more after Wait.

type c09Op struct {
	Op   string `json:"op"` // incr by one ewma ewmaby ewmaone setcur ewmaset settotal etc refill abort get tick
	N    int64  `json:"n,omitempty"`
	Flag bool   `json:"flag,omitempty"`
}

type c09Case struct {
	Total   int64   `json:"total"`
	Refresh string  `json:"refresh"` // none | manual | autoinj
	Ewma    bool    `json:"ewma"`    // bar carries an EWMA decorator (other code path of the Ewma* methods)
	Ops     []c09Op `json:"ops"`
	Finish  string  `json:"finish"` // how an unfinished bar is ended before Wait: complete | abort | cancel
	Keeper  bool    `json:"keeper"` // a second, running bar in the container (a refreshing container then does not hurry the finished bar out)
}

func init() {
	register(&Prop{ID: "C09", Gen: genC09, New: func() interface{} { return new(c09Case) }, Run: runC09})
}

func c09Apply(m *engine.MBar, op *c09Op) {
	switch op.Op {
	case "incr", "by", "ewma", "ewmaby":
		m.Incr(op.N)
	case "one", "ewmaone":
		m.Incr(1)
	case "setcur", "ewmaset":
		m.SetCurrent(op.N)
	case "settotal":
		m.SetTotal(op.N, op.Flag)
	case "etc":
		m.EnableTrigger()
	case "refill":
		m.SetRefill(op.N)
	case "abort":
		m.Abort(op.Flag)
	}
}

func genC09(t *rapid.T) interface{} {
	c := &c09Case{}
	switch rapid.IntRange(0, 7).Draw(t, "totalkind") {
	case 0:
		c.Total = 0
	case 1:
		c.Total = -rapid.Int64Range(1, 5).Draw(t, "negtotal")
	case 2:
		c.Total = 1
	case 3:
		c.Total = genNonNegInt64(t, "bigtotal")
	case 4:
		c.Total = genInt64(t, "anytotal")
	default:
		c.Total = rapid.Int64Range(1, 40).Draw(t, "total")
	}
	c.Refresh = rapid.SampledFrom([]string{"none", "manual", "manual", "autoinj"}).Draw(t, "refresh")
	c.Ewma = rapid.Bool().Draw(t, "ewma")
	c.Finish = rapid.SampledFrom([]string{"complete", "abort", "cancel"}).Draw(t, "finish")
	c.Keeper = rapid.Bool().Draw(t, "keeper")
	m := engine.NewMBar(c.Total)
	n := rapid.IntRange(0, 40).Draw(t, "nops")
	near := func(label string) int64 {
		// a value near the interesting points: 0, current, total
		base := rapid.SampledFrom([]int64{0, m.Cur, m.Total, m.Total - m.Cur}).Draw(t, label+".base")
		d := rapid.Int64Range(-3, 3).Draw(t, label+".d")
		if (d > 0 && base > math.MaxInt64-d) || (d < 0 && base < math.MinInt64-d) {
			return base
		}
		return base + d
	}
	amount := func(label string) int64 {
		switch rapid.IntRange(0, 5).Draw(t, label+".kind") {
		case 0:
			return near(label)
		case 1:
			return genInt64(t, label+".any")
		case 2:
			return -rapid.Int64Range(0, 20).Draw(t, label+".neg")
		default:
			return rapid.Int64Range(0, 25).Draw(t, label+".small")
		}
	}
	for k := 0; k < n; k++ {
		var op c09Op
		if m.Terminal() {
			// premise of the property: no mutators after the terminal state — except
			// the one the statement names: Abort has no effect on a completed bar
			switch x := rapid.IntRange(0, 5).Draw(t, "afterterm"); {
			case x == 0 && c.Refresh != "none":
				op.Op = "tick"
			case x == 1 && m.Completed():
				op.Op = "abort"
				op.Flag = rapid.Bool().Draw(t, "latedrop")
			default:
				op.Op = "get"
			}
			c.Ops = append(c.Ops, op)
			continue
		}
		kind := rapid.IntRange(0, 23).Draw(t, "kind")
		switch {
		case kind <= 8:
			op.Op = rapid.SampledFrom([]string{"incr", "incr", "by", "one", "ewma", "ewmaby", "ewmaone"}).Draw(t, "incrkind")
			op.N = amount("incr")
			if op.Op == "one" || op.Op == "ewmaone" {
				op.N = 1
			}
			if (op.Op == "by" || op.Op == "ewmaby") && (op.N > math.MaxInt32 || op.N < math.MinInt32) {
				op.Op = "incr"
			}
			if !m.IncrOK(op.N) {
				// the library promises nothing about int64 wrap-around
				op.N = 0
				if op.Op == "one" || op.Op == "ewmaone" {
					op.Op = "incr"
				}
			}
		case kind <= 11:
			op.Op = rapid.SampledFrom([]string{"setcur", "setcur", "ewmaset"}).Draw(t, "setkind")
			op.N = amount("set")
			if op.Op == "ewmaset" && op.N >= 0 {
				// EwmaSetCurrent computes current - old: keep the difference inside int64
				if m.Cur < 0 && op.N > math.MaxInt64+m.Cur {
					op.Op = "setcur"
				}
			}
		case kind <= 14:
			op.Op = "settotal"
			op.N = amount("tot")
			op.Flag = rapid.IntRange(0, 2).Draw(t, "complete") == 0
		case kind <= 16:
			op.Op = "etc"
		case kind <= 18:
			op.Op = "refill"
			op.N = amount("refill")
		case kind == 19:
			op.Op = "abort"
			op.Flag = rapid.Bool().Draw(t, "drop")
		case kind <= 21:
			op.Op = "get"
		default:
			if c.Refresh == "none" {
				op.Op = "get"
			} else {
				op.Op = "tick"
			}
		}
		c09Apply(m, &op)
		c.Ops = append(c.Ops, op)
	}
	return c
}

type c09Ewma struct {
	decor.WC
	mu sync.Mutex
	n  []int64
}

func (d *c09Ewma) Decor(decor.Statistics) (string, int) { return d.Format("") }
func (d *c09Ewma) EwmaUpdate(n int64, _ time.Duration) {
	d.mu.Lock()
	d.n = append(d.n, n)
	d.mu.Unlock()
}

// hookMu serialises users of the library's global verif hook inside this
// process (the scenario engine holds its own lock; pure checks use this one).
var hookMu sync.Mutex

func runC09(ci interface{}) Result {
	c := ci.(*c09Case)
	var r Result
	done := make(chan struct{})
	go func() {
		defer close(done)
		c09Exec(c, &r)
	}()
	select {
	case <-done:
	case <-time.After(20 * time.Second):
		// every call of a sequence takes microseconds; see DESIGN §3 C09
		gs := engine.LibGoroutines()
		return Result{Err: fmt.Errorf("a bar operation did not return within 20 s; library goroutines: %v", engine.Summary(gs)), Kind: "hang", Fatal: true}
	}
	return r
}

func c09Exec(c *c09Case, r *Result) {
	hookMu.Lock()
	defer hookMu.Unlock()
	var rendEnd atomic.Int64
	endSig := make(chan struct{}, 1)
	mpb.SetVerifHook(func(point string, n int, obj interface{}) {
		if point == "render.end" {
			rendEnd.Add(1)
			select {
			case endSig <- struct{}{}:
			default:
			}
		}
	})
	defer mpb.SetVerifHook(nil)

	var opts []mpb.ContainerOption
	opts = append(opts, mpb.WithOutput(io.Discard))
	var manual chan interface{}
	var rreq chan<- time.Time
	switch c.Refresh {
	case "manual":
		manual = make(chan interface{})
		opts = append(opts, mpb.WithManualRefresh(manual))
	case "autoinj":
		opts = append(opts, mpb.WithAutoRefresh(), mpb.WithRefreshRate(24*time.Hour), mpb.VerifRenderReq(&rreq))
	}
	p := mpb.New(opts...)
	defer func() {
		if r.Err != nil {
			// do not leave a rendering container behind for the next case
			sd := make(chan struct{})
			go func() { p.Shutdown(); close(sd) }()
			select {
			case <-sd:
			case <-time.After(2 * time.Second):
			}
		}
	}()
	var statMu sync.Mutex
	var lastStat *decor.Statistics
	tag := decor.Any(func(s decor.Statistics) string {
		statMu.Lock()
		cp := s
		lastStat = &cp
		statMu.Unlock()
		return ""
	})
	wc0 := decor.WC{}
	ew := &c09Ewma{WC: wc0.Init()}
	bopts := []mpb.BarOption{mpb.PrependDecorators(tag)}
	if c.Ewma {
		bopts = append(bopts, mpb.AppendDecorators(ew))
	}
	b := p.AddBar(c.Total, bopts...)
	var keeper *mpb.Bar
	if c.Keeper {
		keeper = p.AddBar(100)
		r.Classes = append(r.Classes, "keeper")
		defer keeper.Abort(true)
	}
	m := engine.NewMBar(c.Total)
	r.Classes = append(r.Classes, "mode:"+c.Refresh)
	if c.Total <= 0 {
		r.Classes = append(r.Classes, "total<=0")
	}

	check := func(where string) bool {
		cur, comp, ab := b.Current(), b.Completed(), b.Aborted()
		if cur != m.Cur || comp != m.Completed() || ab != m.Abrt {
			r.Err = fmt.Errorf("%s: bar reports current=%d completed=%v aborted=%v, documented rules give current=%d completed=%v aborted=%v (total %d)",
				where, cur, comp, ab, m.Cur, m.Completed(), m.Abrt, m.Total)
			r.Kind = "counter"
			return false
		}
		if !m.Terminal() && !b.IsRunning() {
			r.Err, r.Kind = fmt.Errorf("%s: IsRunning()=false for a bar that is neither completed nor aborted", where), "running"
			return false
		}
		if id := b.ID(); id != 0 {
			r.Err, r.Kind = fmt.Errorf("%s: ID()=%d for the first bar of the container", where, id), "id"
			return false
		}
		return true
	}
	tick := func() bool {
		n0 := rendEnd.Load()
		switch c.Refresh {
		case "manual":
			manual <- time.Now()
		case "autoinj":
			rreq <- time.Now()
		default:
			return false
		}
		for rendEnd.Load() == n0 {
			select {
			case <-endSig:
			case <-time.After(time.Millisecond):
			}
		}
		return true
	}
	mutators, kinds, touchedTrig, clamp := 0, map[string]bool{}, false, false
	ewmaWant := []int64{}
	for i := range c.Ops {
		op := &c.Ops[i]
		where := fmt.Sprintf("after step %d (%s n=%d flag=%v)", i, op.Op, op.N, op.Flag)
		wasTerminal := m.Terminal()
		trigBefore := m.Trig
		preCur := m.Cur
		switch op.Op {
		case "incr":
			b.IncrInt64(op.N)
		case "by":
			b.IncrBy(int(op.N))
		case "one":
			b.Increment()
		case "ewma":
			b.EwmaIncrInt64(op.N, time.Millisecond)
			ewmaWant = append(ewmaWant, op.N)
		case "ewmaby":
			b.EwmaIncrBy(int(op.N), time.Millisecond)
			ewmaWant = append(ewmaWant, op.N)
		case "ewmaone":
			b.EwmaIncrement(time.Millisecond)
			ewmaWant = append(ewmaWant, 1)
		case "setcur":
			b.SetCurrent(op.N)
		case "ewmaset":
			b.EwmaSetCurrent(op.N, time.Millisecond)
			if op.N >= 0 {
				ewmaWant = append(ewmaWant, op.N-preCur)
			}
		case "settotal":
			b.SetTotal(op.N, op.Flag)
		case "etc":
			b.EnableTriggerComplete()
		case "refill":
			b.SetRefill(op.N)
		case "abort":
			b.Abort(op.Flag)
		case "tick":
			if wasTerminal && c.Refresh == "autoinj" && !c.Keeper {
				// the container is refreshing by itself now (early refresh); the
				// injected tick could block forever once the listener is gone
				break
			}
			tick()
			statMu.Lock()
			st := lastStat
			statMu.Unlock()
			if st == nil {
				r.Err, r.Kind = fmt.Errorf("%s: a render cycle ran but the bar's decorator was not called", where), "norender"
				return
			}
			if st.Current != m.Cur || st.Total != m.Total || st.Refill != m.Refill || st.Completed != m.Completed() || st.Aborted != m.Abrt {
				r.Err = fmt.Errorf("%s: decorators were given current=%d total=%d refill=%d completed=%v aborted=%v, documented rules give current=%d total=%d refill=%d completed=%v aborted=%v",
					where, st.Current, st.Total, st.Refill, st.Completed, st.Aborted, m.Cur, m.Total, m.Refill, m.Completed(), m.Abrt)
				r.Kind = "statistics"
				return
			}
			r.Classes = append(r.Classes, "statistics-read")
			if m.Refill > 0 {
				r.Classes = append(r.Classes, "refill-read")
			}
		}
		if op.Op != "get" && op.Op != "tick" {
			mutators++
			kinds[op.Op] = true
			c09Apply(m, op)
			if m.Trig != trigBefore || (op.Op == "settotal" && op.Flag) {
				touchedTrig = true
			}
			if m.Trig && m.Cur == m.Total && (op.Op != "settotal") {
				clamp = true
			}
		}
		if !check(where) {
			return
		}
	}
	if m.Trig && c.Total <= 0 {
		r.Classes = append(r.Classes, "trigger-enabled-later")
	}
	if m.Completed() {
		r.Classes = append(r.Classes, "completed")
	}
	if m.Abrt {
		r.Classes = append(r.Classes, "aborted")
	}
	for _, op := range c.Ops {
		if op.Op == "abort" && m.Completed() {
			r.Classes = append(r.Classes, "abort-on-completed")
			break
		}
	}
	// every EWMA sample reached the decorator (only while the bar goroutine was alive)
	if c.Ewma {
		ew.mu.Lock()
		got := append([]int64(nil), ew.n...)
		ew.mu.Unlock()
		if fmt.Sprint(got) != fmt.Sprint(ewmaWant) {
			r.Err, r.Kind = fmt.Errorf("EWMA decorator received samples %v, the calls made were %v", got, ewmaWant), "ewma"
			return
		}
	}
	// end the bar and wait
	if !m.Terminal() {
		switch c.Finish {
		case "abort":
			b.Abort(false)
			m.Abort(false)
		case "cancel":
			// Shutdown below aborts it
		default:
			b.SetTotal(-1, true)
			if !m.Trig {
				m.SetTotal(-1, true)
			} else {
				b.SetCurrent(m.Total)
				m.SetCurrent(m.Total)
				if !m.Terminal() { // total < 0 with trigger on cannot be reached by SetCurrent
					b.Abort(false)
					m.Abort(false)
				}
			}
		}
		if m.Terminal() && !check("after finishing the bar") {
			return
		}
	}
	if keeper != nil {
		keeper.Abort(true)
	}
	if !m.Terminal() {
		p.Shutdown()
		m.Abrt = true
	} else if c.Keeper && c.Refresh == "autoinj" {
		// two bars finished at about the same time see each other as running and
		// leave the last frames to the ticker, which here is the harness
		wd := make(chan struct{})
		go func() { p.Wait(); close(wd) }()
	loop:
		for {
			select {
			case <-wd:
				break loop
			case rreq <- time.Now():
			case <-time.After(50 * time.Microsecond):
			}
		}
	} else {
		p.Wait()
	}
	b.Wait()
	if !check("after Wait") {
		return
	}
	if b.IsRunning() {
		r.Err, r.Kind = fmt.Errorf("IsRunning()=true after Wait"), "running"
		return
	}
	r.Nontrivial = mutators >= 3 && len(kinds) >= 2 && (touchedTrig || clamp)
}
