package props

import (
	"fmt"
	"sort"

	"pgregory.net/rapid"
	"verif/harness/engine"
	"verif/harness/vstat"
)

// C14 — cancellation and Shutdown stop everything, once, wherever they land.
//
// The cancel event is placed (a) as a step anywhere in a sequential program,
// (b) inside a concurrent phase, racing with adds and updates, (c) inside one of
// the library's own hook points at a generated occurrence, i.e. truly in the
// middle of a render cycle, a width exchange or a bar's exit. Bars carry
// shutdown-listening decorators under 0-3 wrapper layers. Oracle: Wait returns
// without the program finishing its bars (hang verdict otherwise), few frames
// follow the cancel, every bar is stopped and reports the right state, every
// listener was notified exactly once when Wait returns and still once later,
// the notifier delivers exactly one duplicate-free list of bars of the container.

func init() {
	register(&Prop{ID: "C14", Gen: genC14, New: func() interface{} { return new(engine.Scenario) }, Run: runC14, Journal: true})
}

var profC14Seq = Profile{
	MaxBars: 6, MinBars: 1, MaxSteps: 35, Refresh: []string{"manual", "autoinj", "autort", "none"}, QLens: []int{-1, -1, 0, -2},
	Pop: 25, Queue: 15, LateSuccW: 1, Prio: true, Ext: 10, Text: 1, Rm: 25, NoPop: 15, AbortW: 2, TicksW: 8,
	SyncDecors: 1, PlainDecors: 2, Wraps: true, Listeners: 60, EwmaPct: 30, DisabledPct: 8, Delay: 20, DelayNever: 40, OutSlow: 10, UserWG: 15, Notifier: 60, Fillers: []string{"tag", "bar"}, LateAdd: true, Cancel: 85,
}

var profC14Conc = ConcProfile{
	Profile: Profile{
		MaxBars: 6, MinBars: 1, Refresh: []string{"autort", "autoinj", "manual", "none"}, QLens: []int{-1, -1, 0, -2},
		Pop: 25, Queue: 10, Prio: true, Text: 1, Rm: 25, NoPop: 15, AbortW: 2,
		SyncDecors: 1, PlainDecors: 2, Wraps: true, Listeners: 60, EwmaPct: 30, Delay: 20, DelayNever: 40, OutSlow: 10, UserWG: 15, Notifier: 60, Fillers: []string{"tag", "bar"},
	},
	MaxBlocks: 3, MaxBlockOps: 8, Pars: 2, CancelIn: 70, PerturbMax: 2, HoldPct: 25, SyncPct: 50,
}

var cancelPoints = []string{"flush.bar", "bar.render", "render.begin", "render.end", "hm.req", "wc.sent", "wd.collected", "bar.exit"}

func genC14(t *rapid.T) interface{} {
	excludedKnown = 0
	var sc *engine.Scenario
	switch rapid.IntRange(0, 2).Draw(t, "regime") {
	case 0:
		sc = genScenario(t, &profC14Seq)
		if sc.Cfg.Refresh == "manual" {
			excludedKnown += int64(repairQueue(sc))
		}
	case 1:
		sc = genConcurrent(t, &profC14Conc)
	default:
		// cancel from inside the library
		p := profC14Seq
		p.Cancel = 0
		p.Refresh = []string{"manual", "autoinj", "autort"}
		sc = genScenario(t, &p)
		if sc.Cfg.Refresh == "manual" {
			excludedKnown += int64(repairQueue(sc))
		}
		sc.CancelAt = &engine.CancelAt{
			Point:    rapid.SampledFrom(cancelPoints).Draw(t, "cancelpoint"),
			K:        rapid.IntRange(1, 12).Draw(t, "cancelk"),
			Shutdown: rapid.Bool().Draw(t, "viashutdown"),
		}
	}
	if sc.Cfg.PtyRows == 0 && rapid.IntRange(0, 7).Draw(t, "outputdies") == 0 {
		// the output goes away at some point: the frames drawn on the way down
		// (early refreshes, the final frames after cancel / Shutdown) may be the
		// ones that fail. Everything the statement promises about the shutdown
		// itself still has to hold.
		sc.OutErrAt = rapid.IntRange(1, 10).Draw(t, "outerrat")
	}
	vstat.Excluded(excludedKnown)
	return sc
}

func runC14(ci interface{}) Result {
	sc := ci.(*engine.Scenario)
	var r Result
	tr := engine.Run(sc, engine.Options{})
	if tr.Inconclusive != "" {
		r.Inconclusive = true
		vstat.Note("inconclusive: " + tr.Inconclusive)
		return r
	}
	r.Classes = append(append(r.Classes, "refresh:"+sc.Cfg.Refresh), featureClasses(sc)...)
	if tr.OutputErrs > 0 {
		r.Classes = append(r.Classes, "output-failed")
	}
	cancelled := tr.CancelSeq != 0
	if tr.Hang != nil {
		dumpHang(sc, tr)
		if !cancelled {
			vstat.Class("hang-left-to-C01", 1)
			return r
		}
		r.Err = fmt.Errorf("%s after the container was cancelled (%s): Wait does not return; goroutines: %v", tr.Hang.Kind, tr.Hang.AtStep, tr.Hang.Where)
		r.Kind = tr.Hang.Kind
		return r
	}
	if tr.WaitSeq == 0 {
		r.Inconclusive = true
		return r
	}
	nAdded := 0
	for _, a := range tr.Added {
		if a {
			nAdded++
		}
	}
	// listeners: exactly once per bar, at Wait and after settling
	nListeners := 0
	for bi, b := range sc.Bars {
		if !tr.Added[bi] {
			continue
		}
		for di, d := range b.Decors {
			if !d.Listener || d.Disabled {
				continue
			}
			nListeners++
			k := [2]int{bi, di}
			if n := tr.ShutdownsAtWait[k]; n != 1 {
				r.Err, r.Kind = fmt.Errorf("shutdown listener (bar %d decorator %d under wrappers %v) was notified %d times when Wait returned, want exactly 1", bi, di, d.Wrap, n), "listener-count"
				return r
			}
			if n := tr.Shutdowns[k]; n != 1 {
				r.Err, r.Kind = fmt.Errorf("shutdown listener (bar %d decorator %d) was notified %d times in total, want exactly 1", bi, di, n), "listener-count"
				return r
			}
		}
	}
	// every bar stopped: at once, as seen by a client that has just cancelled the
	// context or returned from Shutdown...
	if len(tr.RunningAfterCancel) > 0 {
		r.Err, r.Kind = fmt.Errorf("bars %v still report IsRunning()=true right after the cancel / Shutdown call returned", tr.RunningAfterCancel), "running-after-cancel"
		return r
	}
	// ...and after Wait
	for _, g := range tr.Final {
		if g.Running {
			r.Err, r.Kind = fmt.Errorf("bar %d: IsRunning()=true after Wait", g.Bar), "running"
			return r
		}
		if g.Completed == g.Aborted {
			r.Err, r.Kind = fmt.Errorf("bar %d after Wait: completed=%v aborted=%v", g.Bar, g.Completed, g.Aborted), "state"
			return r
		}
	}
	if len(tr.BarWaitStuck) > 0 {
		r.Err, r.Kind = fmt.Errorf("Bar.Wait of bars %v does not return after the container stopped", tr.BarWaitStuck), "barwait"
		return r
	}
	// notifier: exactly one value, no duplicates, only bars of this container
	if sc.Cfg.Notifier {
		if len(tr.Notified) != 1 {
			r.Err, r.Kind = fmt.Errorf("shutdown notifier delivered %d values, want exactly 1", len(tr.Notified)), "notifier-count"
			return r
		}
		seen := map[int]bool{}
		for _, b := range tr.Notified[0] {
			if b < 0 || seen[b] || !tr.Added[b] {
				r.Err, r.Kind = fmt.Errorf("shutdown notifier list %v has a duplicate or a bar that is not in the container", tr.Notified[0]), "notifier"
				return r
			}
			seen[b] = true
		}
		r.Classes = append(r.Classes, "notifier")
	}
	end, seqCancelled, okEnd := engine.EndState(sc)
	// (once the output has failed the container shuts down by itself, at a moment
	// the program's order of steps does not tell: the end-state model is not used)
	if okEnd && sc.CancelAt == nil && tr.OutputErrs == 0 {
		for _, g := range tr.Final {
			e := end[g.Bar]
			if e.ByCancel && (!g.Aborted || g.Completed) {
				r.Err, r.Kind = fmt.Errorf("bar %d was unfinished when the container was cancelled but reports completed=%v aborted=%v", g.Bar, g.Completed, g.Aborted), "not-aborted"
				return r
			}
			if !e.ByCancel && (e.Completed != g.Completed || e.Aborted != g.Aborted) {
				r.Err, r.Kind = fmt.Errorf("bar %d finished as completed=%v aborted=%v before the cancel, now reports completed=%v aborted=%v", g.Bar, e.Completed, e.Aborted, g.Completed, g.Aborted), "state-changed"
				return r
			}
		}
		// bars that never finished and were never parked must be in the notifier list
		if sc.Cfg.Notifier && seqCancelled {
			got := map[int]bool{}
			for _, b := range tr.Notified[0] {
				got[b] = true
			}
			for i, e := range end {
				// (a refreshing container keeps drawing until its bar set is stable, so
				// bars set to be removed or popped out may be gone by then)
				stays := !sc.Bars[i].RmOnComplete && !(sc.Cfg.Pop && !sc.Bars[i].NoPop)
				for j, sb := range sc.Bars {
					if sb.QueueAfter == i && end[j].Added {
						stays = false // replaced by its successor in the final frames
					}
				}
				if e.Added && e.ByCancel && sc.Bars[i].QueueAfter < 0 && stays && !got[i] {
					r.Err, r.Kind = fmt.Errorf("bar %d was still running in the container at the cancel but the shutdown notifier list is %v", i, tr.Notified[0]), "notifier-missing"
					return r
				}
			}
		}
		if sim := engine.Simulate(sc); sim.OK && sc.Cfg.Notifier {
			got := append([]int(nil), tr.Notified[0]...)
			sort.Ints(got)
			want := append([]int(nil), sim.FinalHeap...)
			sort.Ints(want)
			if fmt.Sprint(got) != fmt.Sprint(want) {
				r.Err, r.Kind = fmt.Errorf("shutdown notifier lists bars %v, the container holds %v", got, want), "notifier"
				return r
			}
			r.Classes = append(r.Classes, "notifier-exact")
		}
	}
	if sc.Cfg.Delay && sc.Cfg.PtyRows == 0 {
		released := false
		for _, e := range tr.Events {
			if e.Point == "client.release" {
				released = true
			}
		}
		if cancelled && !released && len(tr.Chunks) > 0 {
			r.Err, r.Kind = fmt.Errorf("the render delay never ended (container cancelled first) but %d chunk(s) were written: %q", len(tr.Chunks), tr.Chunks[0].Data), "output-before-delay-ended"
			return r
		}
	}
	if cancelled {
		r.Classes = append(r.Classes, "cancelled")
		// few frames after the cancel
		// counted from the moment the cancellation has taken effect: the return of
		// the cancel call, or for Shutdown the container's arrival at its last stage
		// (the client.cancel event is numbered before the client goroutine queues
		// for the trace lock, which a busy render loop can hold off for milliseconds
		// and hundreds of frames)
		base := tr.CancelEffSeq
		if base == 0 {
			for _, e := range tr.Events {
				if e.Point == "serve.done" {
					base = e.Seq
					break
				}
			}
		}
		if base == 0 {
			base = tr.CancelSeq
		}
		after := 0
		for _, c := range tr.Chunks {
			if c.Seq > base {
				after++
			}
		}
		// rendering ends: the ticker can win the race against the cancellation a few
		// times (each time with probability 1/2) and the final frames repeat until
		// the bar set is stable, hence a generous bound
		if limit := 40 + 4*nAdded; after > limit {
			r.Err, r.Kind = fmt.Errorf("%d frames were written after the cancel (bars: %d, bound %d)", after, nAdded, limit), "frames-after-cancel"
			return r
		}
		if sc.CancelAt != nil {
			r.Classes = append(r.Classes, "cancel-inside:"+sc.CancelAt.Point)
		} else if hasPar(sc) {
			r.Classes = append(r.Classes, "cancel-in-concurrent-phase")
		} else {
			r.Classes = append(r.Classes, "cancel-step")
		}
	}
	unfinished := false
	if okEnd {
		for _, e := range end {
			if e.ByCancel {
				unfinished = true
			}
		}
	} else {
		unfinished = nAdded > 0
	}
	if nListeners > 0 {
		r.Classes = append(r.Classes, "listeners")
	}
	if sc.Cfg.Delay && cancelled {
		r.Classes = append(r.Classes, "cancel-with-render-delay")
	}
	r.Nontrivial = cancelled && nAdded >= 1 && nListeners >= 1 && (unfinished || sc.CancelAt != nil)
	return r
}
