#!/bin/sh
# usage: tools/mutcheck.sh <patch.diff|-R:commit> <ID> [tier]
# applies a patch to /repo's working tree, runs the check, and always reverts.
P="$1"; ID="$2"; TIER="${3:-quick}"
# VERIF_REPO (development only): a scratch checkout to patch and check instead of /repo;
# VERIF_ROOT: a snapshot of /verif to run the check from.
R="${VERIF_REPO:-/repo}"
cd "$R" || exit 9
if [ -n "$(git status --porcelain --untracked-files=no)" ]; then echo "repo dirty"; exit 9; fi
case "$P" in
 -R:*) git show "${P#-R:}" | git apply -R || { echo "reverse apply failed"; exit 9; } ;;
 *) git apply "$P" 2>/dev/null || patch -p1 -s --no-backup-if-mismatch < "$P" || { git checkout -- .; echo "apply failed"; exit 9; } ;;
esac
cd ${VERIF_ROOT:-/verif} && ./check "$ID" --tier "$TIER"; rc=$?
cd "$R" && git checkout -- . && git status --porcelain --untracked-files=all | grep -v '^??' ; 
echo "mutcheck rc=$rc"
exit $rc
