#!/usr/bin/env python3
"""Re-runs, against the current /repo tree, the checks for every confirmed seed recorded under
/verif/seeded/ and writes /verif/seeded/SWEEP.json + SWEEP.md.

  tools/sweepall.py [--only C01-1,C02-3] [--tier quick]
  SWEEP_LANE=k/n VERIF_REPO=<scratch worktree> VERIF_ROOT=<snapshot of /verif> tools/sweepall.py --skip-file F
        one of n parallel lanes (seed index mod n == k) working on its own checkout; writes seeded/SWEEP.<k>.json
  tools/sweepall.py --merge      builds SWEEP.json / SWEEP.md from the lane files and, for seeds no lane ran
        (listed in the skip file because they were re-confirmed individually), from their meta.json

For each seed: `git apply --check` on /repo (a patch that no longer applies is reported as
"stale"), then tools/mutcheck.sh for the seed's own property; if that check does not report it,
the checks that reported it when the seed was first confirmed are run as well. /repo is restored
after each run (mutcheck does it) and must not be touched by anything else meanwhile.
"""
import glob, json, os, subprocess, sys, time

a = sys.argv[1:]
only = set(a[a.index("--only") + 1].split(",")) if "--only" in a else None
tier = a[a.index("--tier") + 1] if "--tier" in a else "quick"
os.chdir("/verif")
REPO = os.environ.get("VERIF_REPO", "/repo")
lane = os.environ.get("SWEEP_LANE")
skip = set(open(a[a.index("--skip-file") + 1]).read().split()) if "--skip-file" in a else set()
OUT = "seeded/SWEEP.json" if not lane else "seeded/SWEEP.%s.json" % lane.split("/")[0]
if "--merge" in a:
    head = subprocess.run(f"git -C {REPO} rev-parse --short HEAD", shell=True, capture_output=True, text=True).stdout.strip()
    res = {}
    for f in sorted(glob.glob("seeded/SWEEP.[0-9]*.json")):
        res.update(json.load(open(f))["seeds"])
    for d in sorted(glob.glob("seeded/C*-*")):
        name = os.path.basename(d)
        if name in res or not os.path.exists(d + "/meta.json"):
            continue
        meta = json.load(open(d + "/meta.json"))
        if not meta.get("confirmed"):
            res[name] = {"property": meta.get("property"), "status": "not confirmed (see meta.json)"}
            continue
        ch = {c: {"rc": v.get("rc", -1), "detected": bool(v.get("detected")), "report": v.get("report", [])[:2]} for c, v in meta.get("detected_by", {}).items()}
        res[name] = {"property": meta.get("property"), "checks": ch, "status": ("detected" if any(v["detected"] for v in ch.values()) else "MISSED"), "from": "meta.json (confirmed individually at " + str(meta.get("verified", {}).get("repo_head")) + ")"}
    json.dump({"repo_head": head, "tier": tier, "seeds": res}, open("seeded/SWEEP.json", "w"), indent=1)
    with open("seeded/SWEEP.md", "w") as f:
        f.write(f"# Seed sweep against /repo {head} ({tier} tier)\n\n| seed | status | own check | other checks |\n|---|---|---|---|\n")
        for name in sorted(res):
            e = res[name]
            ch = e.get("checks", {})
            own = name.split("-")[0]
            o = ch.get(own)
            f.write(f"| {name} | {e['status']} | {('yes' if o['detected'] else 'no (rc=%d)' % o['rc']) if o else '-'} | "
                    + ", ".join(f"{c}:{'yes' if v['detected'] else 'no'}" for c, v in ch.items() if c != own) + " |\n")
    n = sum(1 for e in res.values() if "checks" in e)
    print("merged", len(res), "seeds;", sum(1 for e in res.values() if e["status"] == "detected"), "detected of", n)
    sys.exit(0)
if subprocess.run(f"git -C {REPO} status --porcelain --untracked-files=no", shell=True, capture_output=True, text=True).stdout.strip():
    sys.exit("repo dirty")
head = subprocess.run(f"git -C {REPO} rev-parse --short HEAD", shell=True, capture_output=True, text=True).stdout.strip()
res = {}
if only and os.path.exists(OUT):
    res = json.load(open(OUT)).get("seeds", {})


def run(patch, chk):
    t0 = time.time()
    r = subprocess.run(["/verif/tools/mutcheck.sh", patch, chk, tier], capture_output=True, text=True)
    lines = [l for l in r.stdout.splitlines() if l.startswith("VIOLATION") or l.startswith("  (") or l.startswith("INCONCLUSIVE")]
    out = {"rc": r.returncode, "detected": r.returncode == 1, "wall_s": round(time.time() - t0, 1), "report": [l[:300] for l in lines[:2]]}
    if "BUILD FAILED" in r.stdout or "build failed" in r.stdout:
        out["build_failed"] = True  # the patch applies textually but no longer compiles: stale, not a miss
    return out


for idx, d in enumerate(sorted(glob.glob("seeded/C*-*"))):
    name = os.path.basename(d)
    if only and name not in only:
        continue
    if name in skip:
        continue
    if lane and idx % int(lane.split("/")[1]) != int(lane.split("/")[0]):
        continue
    mp = os.path.join(d, "meta.json")
    if not os.path.exists(mp):
        continue
    meta = json.load(open(mp))
    own = name.split("-")[0]
    entry = {"property": meta.get("property", own)}
    if not meta.get("confirmed"):
        entry["status"] = "not confirmed (see meta.json)"
        res[name] = entry
        continue
    patch = os.path.abspath(os.path.join(d, "patch.diff"))
    if subprocess.run(["git", "-C", REPO, "apply", "--check", patch], capture_output=True).returncode != 0 and \
            subprocess.run(f"patch -p1 --dry-run -s < {patch}", shell=True, cwd=REPO, capture_output=True).returncode != 0:
        entry["status"] = "stale: patch does not apply to " + head
        res[name] = entry
        print(name, entry["status"], flush=True)
        continue
    checks = {}
    checks[own] = run(patch, own)
    if not checks[own]["detected"]:
        for c, v in meta.get("detected_by", {}).items():
            if c != own and v.get("detected"):
                checks[c] = run(patch, c)
    entry["checks"] = checks
    entry["status"] = "detected" if any(v["detected"] for v in checks.values()) else "MISSED"
    if any(v.get("build_failed") for v in checks.values()):
        entry["status"] = "stale: patch applies but does not compile on " + head
    res[name] = entry
    print(name, entry["status"], {c: v["detected"] for c, v in checks.items()}, flush=True)
    json.dump({"repo_head": head, "tier": tier, "seeds": res}, open(OUT, "w"), indent=1)

json.dump({"repo_head": head, "tier": tier, "seeds": res}, open("seeded/SWEEP.json", "w"), indent=1)
with open("seeded/SWEEP.md", "w") as f:
    f.write(f"# Seed sweep against /repo {head} ({tier} tier)\n\n| seed | status | own check | other checks |\n|---|---|---|---|\n")
    for name in sorted(res):
        e = res[name]
        ch = e.get("checks", {})
        own = name.split("-")[0]
        o = ch.get(own)
        f.write(f"| {name} | {e['status']} | {('yes' if o['detected'] else 'no (rc=%d)' % o['rc']) if o else '-'} | "
                + ", ".join(f"{c}:{'yes' if v['detected'] else 'no'}" for c, v in ch.items() if c != own) + " |\n")
print("done")
