#!/bin/sh
# Re-confirms every recorded seed against the current /repo HEAD and re-runs the checks that should catch it.
cd /verif || exit 9
run() { tools/seedverify.py "$@" --keep 2>&1 | grep -v conda | tr -d '\n'; echo; }
run C01 1 --checks C01
run C01 2 --checks C01,C12
run C02 1 --checks C02
run C02 2 --checks C02,C01,C12
run C03 1 --checks C03
run C03 2 --checks C03
run C04 1 --checks C04
run C04 2 --checks C04
run C05 1 --checks C05
run C05 2 --checks C05
run C06 1 --checks C06,C17
run C06 2 --checks C06
run C07 1 --as C07-1 --checks C07
run C07 2 --as C08-1 --checks C08
run C09 1 --checks C09
run C09 2 --checks C09
run C10 1 --checks C10
run C10 2 --race --checks C10
run C11 1 --checks C11
run C11 2 --checks C11,C01
run C12 1 --checks C12
run C12 2 --checks C12
run C13 1 --checks C13
run C13 2 --checks C13,C03
run C14 1 --checks C14
run C14 2 --checks C14
run C15 1 --checks C15
run C15 2 --checks C15
run C16 1 --checks C16
run C16 2 --checks C16
run C17 1 --checks C17,C06
run C17 2 --checks C17,C01
run C18 1 --checks C18
run C18 2 --checks C18
run C19 1 --checks C19
run C19 2 --checks C19
run C20 1 --checks C20
run C20 2 --checks C20
