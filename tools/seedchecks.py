#!/usr/bin/env python3
"""Runs the named checks against an already confirmed seed and records the outcome in its meta.json.
   tools/seedchecks.py <seed-dir-name> <C01,C02,...> [tier]"""
import json, subprocess, sys, time, os
name, checks = sys.argv[1], sys.argv[2].split(",")
tier = sys.argv[3] if len(sys.argv) > 3 else "quick"
d = f"/verif/seeded/{name}"
meta = json.load(open(f"{d}/meta.json"))
det = meta.get("detected_by", {})
for c in checks:
    t0 = time.time()
    r = subprocess.run(["/verif/tools/mutcheck.sh", f"{d}/patch.diff", c, tier], capture_output=True, text=True)
    lines = [l for l in r.stdout.splitlines() if l.startswith("VIOLATION") or l.startswith("  (") or l.startswith("INCONCLUSIVE")]
    det[c] = {"rc": r.returncode, "detected": r.returncode == 1, "tier": tier, "wall_s": round(time.time() - t0, 1), "report": [l[:400] for l in lines[:4]]}
meta["detected_by"] = det
json.dump(meta, open(f"{d}/meta.json", "w"), indent=1)
print(name, {c: (det[c]["detected"], det[c]["rc"]) for c in checks}, flush=True)
