#!/usr/bin/env python3
"""Confirm a seeded change produced by a sub-agent and record it under /verif/seeded/<ID>-<n>/.

  tools/seedverify.py <ID> <n> [--checks C09,C11] [--tier quick] [--nocheck]

Uses the scratch worktree /tmp/seed/<ID> (outside /repo and /verif):
  1. clean tree + demonstration  -> must pass
  2. patch applied: go build, the repository's own test suite -> must pass
  3. patch applied + demonstration -> must fail
then (unless --nocheck) applies the patch to /repo, runs the named checks, reverts, and
records which of them report a violation.
"""
import json, os, shutil, subprocess, sys, time

ENV = dict(os.environ, GOFLAGS="-mod=mod", GOPROXY="off", GOSUMDB="off", GOTOOLCHAIN="local")


def sh(cmd, cwd, timeout=1500):
    try:
        r = subprocess.run(cmd, cwd=cwd, env=ENV, shell=True, capture_output=True, text=True, timeout=timeout)
        return r.returncode, (r.stdout + r.stderr)
    except subprocess.TimeoutExpired as e:
        return 124, "TIMEOUT " + str(e)


def main():
    a = sys.argv[1:]
    pid, n = a[0], a[1]
    checks = [pid]
    if "--checks" in a:
        checks = a[a.index("--checks") + 1].split(",")
    tier = a[a.index("--tier") + 1] if "--tier" in a else "quick"
    wt = os.environ.get("SEED_WT_BASE", "/tmp/seed") + f"/{pid}"
    if not os.path.isdir(wt):
        os.makedirs(os.path.dirname(wt), exist_ok=True)
        subprocess.run(["git", "-C", "/repo", "worktree", "add", "-q", "--detach", wt, "HEAD"], check=True)
    src = None
    for cand in (f"{wt}/SEED/{n}", f"{wt}/_SEED/{n}"):
        if os.path.isdir(cand):
            src = cand
    dst = f"/verif/seeded/{pid}-{n}"
    if "--as" in a:
        dst = "/verif/seeded/" + a[a.index("--as") + 1]
    if "--keep" in a and os.path.exists(os.path.join(dst, "meta.json")):
        src = None  # use what is already recorded under /verif/seeded (e.g. a ported patch)
    if src:
        os.makedirs(dst, exist_ok=True)
        for f in ("patch.diff", "demo_test.go"):
            shutil.copy(os.path.join(src, f), os.path.join(dst, f))
        agent_meta = json.load(open(os.path.join(src, "meta.json")))
    else:
        agent_meta = json.load(open(os.path.join(dst, "meta.json"))).get("agent", {})
    if os.path.isdir(f"{wt}/SEED"):
        # (a directory named SEED would be picked up by ./... as a package)
        if os.path.isdir(f"{wt}/_SEED"):
            for child in os.listdir(f"{wt}/SEED"):
                if os.path.exists(f"{wt}/_SEED/{child}"):
                    shutil.rmtree(f"{wt}/_SEED/{child}")
                shutil.move(f"{wt}/SEED/{child}", f"{wt}/_SEED/{child}")
            os.rmdir(f"{wt}/SEED")
        else:
            os.rename(f"{wt}/SEED", f"{wt}/_SEED")
    meta = {"property": agent_meta.get("property", pid), "seed": os.path.basename(dst), "agent": agent_meta, "needs": agent_meta.get("needs", ""), "summary": agent_meta.get("summary", "")}
    ver = {}
    sh("git checkout -- . && rm -f zz_seed_demo_test.go */zz_seed_demo_test.go", wt)
    head = subprocess.run(["git", "-C", "/repo", "rev-parse", "HEAD"], capture_output=True, text=True).stdout.strip()
    sh(f"git checkout -q --detach {head}", wt)
    ver["repo_head"] = head[:10]
    demo = os.path.join(dst, "demo_test.go")
    patch = os.path.join(dst, "patch.diff")
    # the demonstration goes where its package clause says (root package or decor/)
    first = "\n" + open(os.path.join(dst, "demo_test.go")).read(8000)
    sub = "."
    for cand in ("decor", "cwriter", "internal"):
        if f"\npackage {cand}\n" in first or f"\npackage {cand}_test\n" in first:
            sub = cand
    demo_dst = f"{wt}/{sub}/zz_seed_demo_test.go" if sub != "." else f"{wt}/zz_seed_demo_test.go"
    pat = a[a.index("--run") + 1] if "--run" in a else "TestSeed"
    run_demo = f"go test -vet=off -count=5 -timeout 300s -run '{pat}' ./{sub}"
    if "--race" in a:
        run_demo = f"go test -race -vet=off -count=3 -timeout 600s -run '{pat}' ./{sub}"
    # 1. clean + demo
    shutil.copy(demo, demo_dst)
    rc, out = sh(run_demo, wt)
    ver["demo_on_clean_tree"] = "pass" if rc == 0 else f"FAIL rc={rc}: {out[-600:]}"
    os.remove(demo_dst)
    # 2. patch + suite
    rc, out = sh(f"git apply {patch}", wt)
    if rc != 0:
        ver["apply"] = "FAILED: " + out[-400:]
    else:
        rc, out = sh("go build ./... && go test -vet=off -count=1 ./...", wt)
        ver["suite_with_patch"] = "pass" if rc == 0 else f"FAIL rc={rc}: {out[-800:]}"
        shutil.copy(demo, demo_dst)
        rc, out = sh(run_demo, wt)
        ver["demo_with_patch"] = "fails (as required)" if rc != 0 else "PASSES (change not demonstrated)"
        ver["demo_with_patch_tail"] = out[-500:]
    sh("git checkout -- . && rm -f zz_seed_demo_test.go */zz_seed_demo_test.go", wt)
    ver["cmds"] = ["git apply patch.diff; go build ./... && go test -vet=off -count=1 ./...", run_demo + " (with and without the patch)"]
    if os.path.exists(os.path.join(dst, "meta.json")):
        try:
            prev = json.load(open(os.path.join(dst, "meta.json")))
            if "note" in prev:
                meta["note"] = prev["note"]
            if prev.get("needs") and not meta.get("needs"):
                meta["needs"] = prev["needs"]
        except Exception:
            pass
    meta["verified"] = ver
    ok = ver.get("demo_on_clean_tree") == "pass" and ver.get("suite_with_patch") == "pass" and ver.get("demo_with_patch", "").startswith("fails")
    meta["confirmed"] = ok
    det = {}
    if "--nocheck" not in a and ok:
        for c in checks:
            t0 = time.time()
            menv = dict(os.environ)
            if os.environ.get("SEED_CHECK_IN_WT"):
                # run the check against the scratch worktree instead of /repo (several lanes in parallel)
                menv["VERIF_REPO"] = wt
            r = subprocess.run(["/verif/tools/mutcheck.sh", patch, c, tier], capture_output=True, text=True, env=menv)
            lines = [l for l in r.stdout.splitlines() if l.startswith("VIOLATION") or l.startswith("  (") or l.startswith("INCONCLUSIVE")]
            det[c] = {"rc": r.returncode, "detected": r.returncode == 1, "tier": tier, "wall_s": round(time.time() - t0, 1), "report": lines[:4]}
    old = {}
    if os.path.exists(os.path.join(dst, "meta.json")):
        try:
            old = json.load(open(os.path.join(dst, "meta.json"))).get("detected_by", {})
        except Exception:
            old = {}
    old.update(det)
    meta["detected_by"] = old
    json.dump(meta, open(os.path.join(dst, "meta.json"), "w"), indent=1)
    print(json.dumps({"seed": meta["seed"], "confirmed": ok, "verified": {k: v for k, v in ver.items() if k != "demo_with_patch_tail" and k != "cmds"},
                      "detected_by": {k: v["detected"] for k, v in old.items()}}, indent=1))


if __name__ == "__main__":
    main()
