#!/usr/bin/env python3
"""Regenerates /verif/MANIFEST.json from the table below (keeps it valid and
consistent with checkconf.py). Run after registering or dropping a check."""
import json, os, sys

ROOT = os.path.dirname(os.path.dirname(os.path.abspath(__file__)))
sys.path.insert(0, ROOT)
from checkconf import CONF  # noqa: E402

HOOK_COMMITS = ["56390de04c834ecf51bf1d0dd15116d7336225f7"]

# id -> (category, level text, level note, technique, engine)
CLAIMS = {
    "C05": ("exploration",
            "stateful PBT over container histories: every frame parsed by row tags and compared with an exact container/frame model (sequential client, manual refresh, n<=q) or checked against history invariants (presence 0*1+0*, no duplicates, notifier list)",
            "one output Write = one frame; the frame model is written from the property statement; goroutine schedules inside a cycle are sampled",
            "model-based stateful property testing (rapid) with a reference frame model and history invariants"),
    "C07": ("exploration",
            "pure-function PBT + native fuzzing of Fill/Decor/one-frame rendering over hostile styles and widths with a display-width oracle and a non-termination verdict",
            "go-runewidth display widths (the same tables the library uses); termination judged by a 4*10^4x time margin plus heap growth",
            "property-based testing (rapid) and coverage-guided fuzzing against a width-validity oracle"),
    "C08": ("exploration",
            "pure-function PBT: BarFiller.Fill through the public API against an exact math/big oracle plus the monotonicity relation",
            "trusts go-runewidth widths and math/big",
            "property-based testing (rapid): differential against exact rational arithmetic + metamorphic monotonicity"),
    "C09": ("exploration",
            "model-based stateful PBT: generated operation sequences on one real bar (three refresh modes, all increment flavours, int64 boundary amounts) compared step by step with a reference counter machine written from the documentation; Statistics handed to decorators compared in render cycles",
            "the reference model (engine.MBar) is the trusted statement of the documented rules; int64 wrap-around is not generated",
            "model-based stateful property testing (rapid) against a reference counter machine"),
    "C17": ("exploration",
            "stateful PBT over queue-after histories (successor created before/after the predecessor finished, chains, several successors) with frame-level invariants, an exact position model and a decidable hang/livelock verdict for Wait",
            "hang verdict = all library and client goroutines blocked with identical stacks and no hook event, or the frame bound exceeded; no finding is open: successors created late or in numbers are part of the generated domain since the C17 repairs",
            "model-based stateful property testing (rapid) with history invariants and a bounded-liveness oracle"),
}

REASON_PENDING = "check under construction in this round (see DESIGN.md §5.4); will be claimed once its check is registered"


def main():
    props = [json.loads(l)["id"] for l in open(os.path.join(ROOT, "properties.jsonl"))]
    checks, na = [], []
    for pid in props:
        if pid in CLAIMS and pid in CONF:
            cat, text, note, tech = CLAIMS[pid][:4]
            checks.append({
                "property_id": pid,
                "quick_cmd": f"./check {pid} --tier quick",
                "thorough_cmd": f"./check {pid} --tier thorough",
                "evidence_file": f"/verif/evidence/{pid}.json",
                "replay_cmd_template": f"./check {pid} --replay {{path}}",
                "engine": "rapid",
                "level_claimed": {"category": cat, "text": text, "design_ref": f"§3 {pid}"},
                "level_note": note,
                "technique": tech,
            })
        else:
            na.append({"property_id": pid, "reason": NA.get(pid, REASON_PENDING)})
    m = {
        "version": 1,
        "setup_cmd": "cd /verif/harness && GOFLAGS=-mod=mod GOPROXY=off GOSUMDB=off GOTOOLCHAIN=local go test -c -tags verif -vet=off -o /dev/null ./props",
        "hooks": {
            "guard": "verif",
            "enable": "go build tag: go test -tags verif (harness module replaces github.com/vbauerster/mpb/v8 => /repo)",
            "baseline_off_cmd": "cd /repo && GOFLAGS=-mod=mod GOPROXY=off go test -vet=off -count=1 -json ./...",
            "source_commits": HOOK_COMMITS,
            "add_only": True,
        },
        "engines": [{"name": "rapid", "path": "/verif/harness", "serves_properties": [c["property_id"] for c in checks],
                     "kind_free_text": "pgregory.net/rapid v1.3.0 property-based testing (stateful generators, shrinking) + native go fuzzing in the thorough tier; driver /verif/check"}],
        "checks": checks,
        "not_applicable": na,
    }
    with open(os.path.join(ROOT, "MANIFEST.json"), "w") as f:
        json.dump(m, f, indent=1, ensure_ascii=False)
        f.write("\n")
    print("claimed:", [c["property_id"] for c in checks])
    print("not claimed:", [x["property_id"] for x in na])


NA = {}
CLAIMS["C01"] = ("exploration",
    "randomised schedule search: concurrent scenarios over every configuration axis of the statement (n vs q, refresh modes and rates, synchronised decorators, priorities, pop, removal, concurrent Write, cancel) with keyed delays and directed holds at the library's hook points, GOMAXPROCS variation, 8-16 worker processes; the oracle is a decidable hang verdict (all library and client goroutines blocked with identical stacks and no hook event, or the frame bound exceeded), never a bare timeout",
    "interleavings inside one perturbation window are sampled by the Go scheduler, not enumerated; a failure reproduces with high, not certain, probability (replay re-runs a scenario 20 times)",
    "property-based testing (rapid) of generated concurrent programs with schedule perturbation and a goroutine-state hang oracle")
CLAIMS["C02"] = ("exploration",
    "randomised schedule search over the whole public API from 1-4 client goroutines with the done event (cancel/Shutdown) at a generated position and a generated suffix of late calls after Wait; worker-process death (panic, fatal error) is a violation with the journalled scenario as replay; hang verdict as C01; late-call contract (ErrDone, nil proxies, unchanged getters, no output) checked exactly",
    "as C01; documented panics are not generated",
    "property-based testing (rapid) of generated concurrent API histories with crash journal, hang oracle and late-call contract")
CLAIMS["C03"] = ("exploration",
    "stateful PBT over programs on auto-refreshing containers (injected render clock racing with early refresh, and a real ticker): the last chunk written before Wait returned is parsed by row tags and compared with a reference end-state model (who remains, final state, on-complete/on-abort decorations), getters after Wait must agree with it, and no write may follow Wait",
    "one output Write = one frame; the end-state model is derived from the program only (first terminal event wins); runs with cancel/Shutdown judge only rows of bars that finished by themselves; hangs are left to C01",
    "model-based stateful property testing (rapid): final-frame oracle against a reference end-state model")
CLAIMS["C04"] = ("exploration",
    "stateful PBT over clocked frame sequences on byte buffers and real ptys of generated sizes; every chunk is interpreted by a VT100-subset emulator and screen+scrollback must equal the persisted lines followed by the rows of the frame (which rows persist: reference frame model); model-free checks that no running bar's row is scrolled off, nothing wraps, no unexpected control sequence, no output before the render delay ends or on non-refreshing non-terminal containers",
    "the VT emulator (LF implies CR, CUU clamps, ED, autowrap, scrollback) is trusted base; resize is not modelled; exact for manual refresh with one client",
    "model-based stateful property testing (rapid) against a reference terminal interpreter")
CLAIMS["C06"] = ("exploration",
    "stateful PBT over clocked histories of adds, priority changes (immediate, lazy, extreme values), completions, queued successors and pop mode; every frame's top-to-bottom order is judged by a validity predicate against the effective priorities of a reference frame model",
    "exact only for manual refresh with one client and n<=q (the render clock is owned by the harness); ties and the frame after a lazy change accept any order",
    "model-based stateful property testing (rapid) with an order-validity oracle")
CLAIMS["C10"] = ("exploration",
    "generated concurrent histories (1-8 clients on 1-3 shared bars, all mutators and getters, render cycles and bar shutdown anywhere, holds around the bar goroutine's exit): (1) the recorded invoke/return history of every bar is checked for linearizability against the sequential bar model by porcupine, (2) at quiescence Current equals the capped sum of the increments, (3) the same scenarios run in -race worker processes and a reported data race whose two access sites are library code is a violation (the journalled scenario is the replay file)",
    "porcupine v1.3.0 decides linearizability (capped histories, timeout -> inconclusive); operations after a bar's terminal event may be applied or dropped; the race detector only sees executed accesses",
    "property-based testing (rapid) of generated concurrent histories + linearizability checking + dynamic race detection")
CLAIMS["C11"] = ("exploration",
    "stateful PBT over per-bar histories that continue after the terminal event (further updates, aborts, SetTotal, trigger enabling, getters, Bar.Wait, render cycles, cancel/Shutdown) in four refresh regimes; history invariants over every (Completed, Aborted) pair read by the client and shown by the row tags, agreement with the program's first terminal event, exactly-one after Wait, cancel means aborted",
    "observations ordered per observer; updates after completion are non-decreasing as the statement requires; hangs are left to C01",
    "model-based stateful property testing (rapid) with history-invariant oracles")
CLAIMS["C12"] = ("exploration",
    "stateful PBT with recording probes around every decorator: per render cycle and sync column the returned widths must all equal the largest recomputed need over exactly the bars rendered in that cycle; plain decorators return their own need; returned text is the formatted text padded to that width; membership changes (add, remove, drop, pop, successor, cancel) in all three refresh modes",
    "needs are recomputed from W, the extra-space flag and go-runewidth widths of the text each decorator formatted; hangs are left to C01",
    "property-based testing (rapid) with an exact width model per cycle and column")
CLAIMS["C18"] = ("exploration",
    "stateful PBT over pop-completed scenarios (bars finishing in any order and in the same cycle, extender rows, text, no-pop bars, successors, buffers and ptys, three refresh regimes); the whole output is interpreted by the VT emulator and the final screen must hold every popped bar exactly once in its finished state, above the live bars and in finishing order; frame-by-frame order validity and render-call counts against the frame model",
    "VT emulator and frame model are trusted base; finishing order and render counts are judged only for manual refresh (exact model); containers with more rows than the height are part of the generated domain since the C18 repair (4feaac3)",
    "model-based stateful property testing (rapid) against a reference terminal interpreter and frame model")
CLAIMS["C13"] = ("exploration",
    "randomised schedule search: 1-4 writer goroutines with uniquely tagged payloads (from recycled buffers) racing with render cycles, completions, cancel/Shutdown, the final render and Wait in auto and manual refresh; history oracle over output chunks and invoke/return sequence numbers: exactly once, unmodified, whole lines at the top of a frame, real-time order respected, not later than the last frame before Wait, ErrDone writes leave no byte, late writes return (0, ErrDone)",
    "one output Write call = one frame; manual-refresh runs may leave accepted text unflushed when no further frame is requested; hangs left to C01",
    "property-based testing (rapid) of concurrent histories with an exactly-once / order history oracle")
CLAIMS["C14"] = ("exploration",
    "stateful PBT with the cancel event placed as a program step, inside concurrent phases, and fired from inside the library's own hook points (mid render cycle, mid width exchange, at a bar's exit) at generated occurrences; all refresh modes, render delay, listeners under wrapper stacks (also combined with EWMA); oracle: hang verdict for Wait, exactly-once counts for every listener at Wait and after settling, exactly one duplicate-free notifier value (exact set for clocked runs), stopped bars with the right terminal state",
    "the notifier set is compared exactly only where the frame model applies; schedules inside a perturbation window are sampled",
    "property-based testing (rapid) with fault/cancel placement at instrumented points and exactly-once history invariants")
CLAIMS["C15"] = ("fault_enumeration",
    "fault injection over every render-error site (k-th Fill, k-th extender call, k-th output Write as error or short write, k-th terminal-size query) with small k covered many times per site kind and larger k at random, crossed with generated layouts of synchronised decorators, slow decorators and directed holds between width exchange and flush, three refresh regimes; oracle: hang verdict for Wait, the injected error exactly once in the debug output and nothing else, no output after the failing cycle, all bars stopped, late calls see a finished container",
    "fault sites and k are covered by generator weighting rather than a nested loop; schedules inside a perturbation window are sampled",
    "property-based fault injection (rapid) with a hang oracle and exactly-once error accounting")
CLAIMS["C16"] = ("exploration",
    "generated scenarios of every class (concurrent clients, cancel/Shutdown, render faults, early refresh, pop, queued bars, n>q, listeners, notifier) run 1-4 times in a row per case; after Wait and the notifier read, the goroutine dump is polled and any goroutine with a library frame or created by library code that stays blocked with an unchanged stack is a leak; accumulation over repeated containers is covered by the same verdict",
    "leak = blocked and stack-stable over 150 ms with nothing else running; runnable leftovers make a case inconclusive; containers run one after another, not overlapping",
    "property-based testing (rapid) with a goroutine-set invariant oracle")
CLAIMS["C19"] = ("exploration",
    "differential PBT: scripted underlying readers/writers of all four dynamic types consumed through the proxy and bare by the same generated consumer; caller-visible results, underlying-visible calls, delivered bytes, Close counts, fast-path offer, bar accounting and moving-average samples compared",
    "the bare twin plays the same script; sample durations are bounded from below only",
    "property-based testing (rapid): differential oracle against an unproxied twin plus accounting invariants")
CLAIMS["C20"] = ("exploration",
    "pure-function PBT: every size/percentage/time/rate decorator is printed for generated values, formats and durations and parsed back (round-trip within the printed precision, largest fitting unit), clock readers are bracketed, moving-average estimators are observed through a recording average against the carry rule, completed bars are checked for freeze",
    "tolerance includes 8 ulp of float64; reference carry rule and unit table are written from the property statement; go duration / strconv parsers trusted",
    "property-based testing (rapid): round-trip (format -> parse) oracle, conservation invariant over generated sample sequences, metamorphic freeze relation")

if __name__ == "__main__":
    main()
