#!/bin/sh
# Re-runs the quick tier of every claimed check on /repo's clean tree so that the
# committed evidence files describe exactly such a run. usage: tools/regen_evidence.sh [ID...]
cd /verif || exit 9
if [ -n "$(git -C /repo status --porcelain --untracked-files=no)" ]; then echo "repo dirty"; exit 9; fi
ids="$*"
[ -z "$ids" ] && ids=$(python3 -c "import json;print(' '.join(c['property_id'] for c in json.load(open('MANIFEST.json'))['checks']))")
rc=0
for id in $ids; do
  VERIF_SEED=1 ./check "$id" --tier quick > .work/regen-$id.log 2>&1; r=$?
  tail -1 .work/regen-$id.log | cut -c1-160
  grep -E "^(VIOLATION|INCONCLUSIVE)" .work/regen-$id.log
  [ $r -ne 0 ] && rc=$r
done
exit $rc
