#!/usr/bin/env python3
"""Sensitivity helper: apply a small textual mutation to /repo's working tree,
run a check, always revert.

  tools/mut.py <ID> <name> <file> <old> <new> [--tier quick] [--save] [--tests]

--save   keep the diff as /verif/mutants/<ID>-<name>.diff
--tests  also run the repository's own test suite on the mutant (must pass for a
         mutant to count as 'realistic')
"""
import os, subprocess, sys

def main():
    a = sys.argv[1:]
    pid, name, path, old, new = a[:5]
    tier = "quick"
    if "--tier" in a:
        tier = a[a.index("--tier") + 1]
    full = os.path.join("/repo", path)
    if subprocess.run(["git", "-C", "/repo", "status", "--porcelain", "--untracked-files=no"], capture_output=True, text=True).stdout.strip():
        print("repo dirty"); return 9
    src = open(full).read()
    if src.count(old) != 1:
        print(f"old text occurs {src.count(old)} times"); return 9
    open(full, "w").write(src.replace(old, new))
    try:
        diff = subprocess.run(["git", "-C", "/repo", "diff"], capture_output=True, text=True).stdout
        if "--save" in a:
            os.makedirs("/verif/mutants", exist_ok=True)
            open(f"/verif/mutants/{pid}-{name}.diff", "w").write(diff)
        if "--tests" in a:
            e = dict(os.environ, GOFLAGS="-mod=mod", GOPROXY="off", GOSUMDB="off", GOTOOLCHAIN="local")
            r = subprocess.run(["go", "test", "-vet=off", "-count=1", "./..."], cwd="/repo", env=e, capture_output=True, text=True)
            print("repo tests:", "PASS" if r.returncode == 0 else "FAIL\n" + r.stdout[-1500:] + r.stderr[-500:])
        r = subprocess.run(["./check", pid, "--tier", tier], cwd="/verif", capture_output=True, text=True)
        out = r.stdout.strip().splitlines()
        print("\n".join(out[-6:]))
        print(f"mut {pid}-{name}: rc={r.returncode}", "DETECTED" if r.returncode == 1 else ("MISSED" if r.returncode == 0 else "INCONCLUSIVE"))
        return r.returncode
    finally:
        subprocess.run(["git", "-C", "/repo", "checkout", "--", "."])

if __name__ == "__main__":
    sys.exit(main())
