#!/bin/sh
# Runs the thorough tier of every claimed check in turn (VERIF_SEED from the environment, default 7).
cd /verif || exit 9
ids="$*"
[ -z "$ids" ] && ids=$(python3 -c "import json;print(' '.join(c['property_id'] for c in json.load(open('MANIFEST.json'))['checks']))")
for id in $ids; do
  t0=$(date +%s)
  VERIF_SEED=${VERIF_SEED:-7} ./check "$id" --tier thorough > .work/thorough-$id.log 2>&1; rc=$?
  echo "$id rc=$rc $(( $(date +%s) - t0 ))s $(grep -E "^$id thorough" .work/thorough-$id.log | cut -c1-140)"
  grep -E "^(VIOLATION|INCONCLUSIVE)" .work/thorough-$id.log | cut -c1-300
done
